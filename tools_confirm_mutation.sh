#!/bin/bash
# usage: tools_confirm_mutation.sh <PROP> <k>  -- confirms a sub-agent's mutation in its scratch worktree and files it under /verif/seeded/
P="$1"; K="$2"; WT=/tmp/wt/$P; M=$WT/MUTATION
cd $WT || exit 9
git checkout -q -- . ; git apply --check $M/m$K.patch || { echo "patch does not apply"; exit 9; }
export FORCE_BINJA_MOCK=1 PYTHONPATH=$WT PYTHONDONTWRITEBYTECODE=1
/venv/bin/python $M/m${K}_demo.py >/tmp/demo_clean.out 2>&1; clean=$?
git apply $M/m$K.patch
/venv/bin/python $M/m${K}_demo.py >/tmp/demo_mut.out 2>&1; mut=$?
suite=$(timeout 900 /venv/bin/python -m pytest -q -p no:cacheprovider --timeout=900 --continue-on-collection-errors 2>&1 | tail -1)
git checkout -q -- .
echo "demo clean exit=$clean, with mutation exit=$mut, suite: $suite"
if [ $clean -eq 0 ] && [ $mut -ne 0 ] && echo "$suite" | grep -q "17 failed, 412 passed"; then
  D=/verif/seeded/$P-m$K; mkdir -p $D
  cp $M/m$K.patch $D/patch.diff; cp $M/m${K}_demo.py $D/demo.py; cp $M/m${K}_notes.md $D/notes.md
  echo "CONFIRMED -> $D"
else
  echo "NOT CONFIRMED"; tail -5 /tmp/demo_mut.out
fi
