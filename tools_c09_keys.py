#!/usr/bin/env python3
"""Maintainer tool (not run by any check): turn the 'violation class' lines of C09 runs on the UNCHANGED tree into the
committed exact-key list known_findings_C09.keys, grouped by root cause.  usage: tools_c09_keys.py out1 [out2 ...]"""
import re, sys
keys = set()
for f in sys.argv[1:]:
    for line in open(f):
        m = re.match(r"  violation class (.*?): ", line)
        if m:
            keys.add(m.group(1))
def group(k):
    pre, sig, kind = k.split("|")
    if "BP+PX" in sig or "BP+PY" in sig:
        return "F25-asm-bp-px-py"
    if pre == "nopre" and kind == "il-differs" and re.match(r"(ADD|SUB) r\d,r\d$", sig):
        return "F27-asm-add-sub-register-width"
    if pre == "nopre" and kind == "asm-rejects:invalid-mode-combination" and sig.endswith("(BP+n),(BP+n)"):
        return "F26-asm-default-pair-rejected"
    if pre != "nopre" and kind == "il-differs" and sig.startswith("MVL "):
        return "F28-asm-mvl-lone-imem"
    if pre != "nopre" and kind == "text-differs":
        return "F24-asm-prefix-lost"
    return None
out, bad = [], []
for k in sorted(keys):
    g = group(k)
    (out if g else bad).append((g, k))
with open("/verif/known_findings_C09.keys", "w") as f:
    f.write("# exact counterexample keys of the C09 findings on the unchanged tree: <finding id>\\t<key>   (generated once by tools_c09_keys.py, never at check time)\n")
    for g, k in sorted(out):
        f.write(f"{g}\t{k}\n")
from collections import Counter
print(Counter(g for g, _ in out)); print("ungrouped:", bad[:20], len(bad))
