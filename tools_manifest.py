#!/usr/bin/env python3
"""Regenerates MANIFEST.json from checks/registry.py (single source of truth)."""
import json, os, sys
sys.path.insert(0, os.path.dirname(os.path.abspath(__file__)))
from checks.registry import CHECKS, NOT_APPLICABLE

def main():
    man = {
        "version": 1,
        "setup_cmd": "./setup.sh",
        "hooks": {
            "guard": "MBLSHA_BINJA_ESR_VERIF",
            "enable": "none: all instrumentation is applied from outside /repo (import hook, harness crates); the guard name is reserved",
            "baseline_off_cmd": "cd /repo && /venv/bin/python -m pytest -ra -q -p no:cacheprovider --timeout=900 --continue-on-collection-errors",
            "source_commits": [],
            "add_only": True,
        },
        "engines": [
            {"name": "pysym", "path": "engines/pysym", "serves_properties": sorted({c["id"] for c in CHECKS if "pysym" in c["engine"]}),
             "kind_free_text": "symbolic execution of the repository's real Python code by z3-backed proxy objects (DFS over branch decisions, z3 decides every obligation)"},
            {"name": "rsym", "path": "engines/rsym", "serves_properties": sorted({c["id"] for c in CHECKS if "rsym" in c["engine"]}),
             "kind_free_text": "symbolic interpreter for the LLVM IR rustc emits for sc62015/core (z3 terms for data, concrete control)"},
        ],
        "checks": [],
        "not_applicable": NOT_APPLICABLE,
        "notes": "Every verdict is a z3 result over symbolic inputs within the bounds written into the evidence file; see DESIGN.md.",
    }
    for c in CHECKS:
        man["checks"].append({
            "property_id": c["id"],
            "quick_cmd": f"./check {c['id']} --tier quick",
            "thorough_cmd": f"./check {c['id']} --tier thorough",
            "evidence_file": f"evidence/{c['id']}.json",
            "replay_cmd_template": f"./check {c['id']} --replay {{path}}",
            "engine": c["engine"],
            "level_claimed": {"category": c["level"], "text": c["level_text"], "design_ref": c["design_ref"]},
            "level_note": c["level_note"],
            "technique": c["technique"],
        })
    json.dump(man, open(os.path.join(os.path.dirname(os.path.abspath(__file__)), "MANIFEST.json"), "w"), indent=1)
    print("MANIFEST.json written:", len(man["checks"]), "checks,", len(NOT_APPLICABLE), "n/a")

main()
