#!/bin/bash
# usage: tools_try_mutation2.sh <seeded id> <tier> <prop>...
# Runs the checks against a scratch worktree of /repo with the seeded patch applied (VERIF_REPO), so that several
# trials can run side by side without touching /repo; the worktree is removed afterwards.
id="$1"; tier="$2"; shift 2
WT=/tmp/mt/$id
mkdir -p /tmp/mt; git -C /repo worktree remove --force $WT 2>/dev/null
git -C /repo worktree add -q --detach $WT HEAD || exit 9
git -C $WT apply /verif/seeded/$id/patch.diff || { echo "patch does not apply"; git -C /repo worktree remove --force $WT; exit 9; }
for p in "$@"; do
  echo "=== $p ($tier) on $id"
  ( cd /verif && VERIF_REPO=$WT VERIF_OUT_SUFFIX=$id VERIF_RSYM_CACHE=/tmp/mt/cache-$id timeout 3000 ./check $p --tier $tier 2>&1 | grep -E "^VIOLATION|^KNOWN|^HARNESS|violation class|^C[0-9]+ (quick|thorough)" | cut -c1-260 | head -${MAXL:-10}; echo "exit=${PIPESTATUS[0]}" )
done
git -C /repo worktree remove --force $WT
rm -rf /tmp/mt/cache-$id
