"""isa_spec: the SC62015 instruction tables of sc62015/pysc62015/README.md as a z3py interpreter.

Input: mnemonic + operand descriptors parsed from the rendered text
(specs/operands.py), the pre-state as z3 terms, the instruction address and
length.  Output: the documented post-state (registers, C/Z, memory), the
predicted data-read / address-formation-read / write sets, the validity
assumptions under which the documentation defines the behaviour, and the set
of flags the documentation leaves undefined.

This file is an oracle written from the documentation, not from the
implementation.  Reading notes (where the README is loose and the repository's
own passing tests fix the reading) are marked "NOTE".
"""
from __future__ import annotations

import z3

from .operands import R, Imm, Rel, IM, EA, ER, EI, REG_WIDTH

IMEM = 0x100000
A32 = z3.BitVecSort(32)
BP, PX, PY = 0xEC, 0xED, 0xEE
IMR, ISR = 0xFB, 0xFC
UCR, USR, SCR, LCC, SSR = 0xF7, 0xF8, 0xFD, 0xFE, 0xFF
VECTOR = 0xFFFFA

REG_BITS = {"BA": 16, "I": 16, "X": 20, "Y": 20, "U": 20, "S": 20, "PC": 20, "F": 8}


def bv(v, n):
    return z3.BitVecVal(v, n)


def zx(t, n):
    k = t.size()
    if k == n:
        return t
    if k > n:
        return z3.Extract(n - 1, 0, t)
    return z3.ZeroExt(n - k, t)


class SpecUnsupported(Exception):
    """The documentation does not define this form (out of the claim)."""


class St:
    def __init__(self, pre, pc, ilen, N):
        self.r = {k: pre[k] for k in REG_BITS}
        self.mem = pre["mem"]
        self.mem0 = pre["mem"]
        self.pc = pc  # BV20 term: address of the instruction
        self.ilen = ilen
        self.N = N
        self.reads = []  # (addr32, cond) data reads
        self.areads = []  # (addr32, cond) address-formation reads
        self.writes = []  # (addr32, cond)
        self.assume = []  # validity assumptions (z3 Bool)
        self.undefined = set()  # {"C","Z"}
        self.halted = None  # z3 Bool or None (unchanged)
        self.havoc = []  # (addr32, mask8): bits the documentation leaves open
        self.r["PC"] = zx(zx(pc, 32) + ilen, 20)
        self.pc_set = False

    # ---- flags
    def C(self):
        return z3.Extract(0, 0, self.r["F"])

    def Z(self):
        return z3.Extract(1, 1, self.r["F"])

    def set_flags(self, c=None, z=None):
        f = self.r["F"]
        cbit = self.C() if c is None else c
        zbit = self.Z() if z is None else z
        self.r["F"] = z3.Concat(z3.Extract(7, 2, f), zbit, cbit)

    # ---- memory
    def rd1(self, a32, cond=True, kind="d", mem=None):
        (self.reads if kind == "d" else self.areads).append((a32, cond))
        return z3.Select(self.mem if mem is None else mem, a32)

    def rd(self, a32, n, cond=True, kind="d"):
        bs = [self.rd1(a32 + i, cond, kind) for i in range(n)]
        return z3.Concat(*reversed(bs)) if n > 1 else bs[0]

    def wr1(self, a32, v8, cond=True):
        self.writes.append((a32, cond))
        if cond is True:
            self.mem = z3.Store(self.mem, a32, v8)
        else:
            self.mem = z3.If(cond, z3.Store(self.mem, a32, v8), self.mem)

    def wr(self, a32, val, n, cond=True):
        for i in range(n):
            self.wr1(a32 + i, z3.Extract(8 * i + 7, 8 * i, val), cond)

    def imem_reg(self, off):
        """Address-formation read of BP/PX/PY (pre-state value; see assumption in finish())."""
        a = bv(IMEM + off, 32)
        self.areads.append((a, True))
        return z3.Select(self.mem0, a)

    # ---- registers
    def get_reg(self, name, nbytes=None):
        if name == "A":
            v = z3.Extract(7, 0, self.r["BA"])
        elif name == "B":
            v = z3.Extract(15, 8, self.r["BA"])
        elif name == "IL":
            v = z3.Extract(7, 0, self.r["I"])
        elif name == "IH":
            v = z3.Extract(15, 8, self.r["I"])
        elif name == "F":
            v = z3.Concat(bv(0, 6), self.Z(), self.C())
        elif name == "IMR":
            v = self.rd1(bv(IMEM + IMR, 32))
        else:
            v = self.r[name]
        if nbytes is not None:
            v = zx(v, 8 * nbytes)
        return v

    def set_reg(self, name, val):
        if name == "A":
            self.r["BA"] = z3.Concat(z3.Extract(15, 8, self.r["BA"]), zx(val, 8))
        elif name == "B":
            self.r["BA"] = z3.Concat(zx(val, 8), z3.Extract(7, 0, self.r["BA"]))
        elif name == "IL":
            # README: "if r1=IL then IH <- 0"
            self.r["I"] = zx(zx(val, 8), 16)
        elif name == "IH":
            self.r["I"] = z3.Concat(zx(val, 8), z3.Extract(7, 0, self.r["I"]))
        elif name == "F":
            self.set_flags(c=z3.Extract(0, 0, val), z=z3.Extract(1, 1, val))
        elif name == "IMR":
            self.wr1(bv(IMEM + IMR, 32), zx(val, 8))
        else:
            self.r[name] = zx(val, REG_BITS[name])
            if name == "PC":
                self.pc_set = True


# ------------------------------------------------------------------ operand locations


def imem_off(st: St, im: IM):
    """8-bit internal offset per the prefix table (mod 256)."""
    if im.mode == "N":
        return im.n
    if im.mode == "BP_N":
        return st.imem_reg(BP) + im.n
    if im.mode == "PX_N":
        return st.imem_reg(PX) + im.n
    if im.mode == "PY_N":
        return st.imem_reg(PY) + im.n
    if im.mode == "BP_PX":
        return st.imem_reg(BP) + st.imem_reg(PX)
    if im.mode == "BP_PY":
        return st.imem_reg(BP) + st.imem_reg(PY)
    raise AssertionError(im.mode)


class Loc:
    """A byte-addressable location range starting at a32 (internal or external)."""

    def __init__(self, st, a32, internal, post=None):
        self.st = st
        self.a32 = a32
        self.internal = internal
        self.post = post  # callable applying register side effects

    def valid(self, n):
        st = self.st
        if self.internal:
            # multi-byte internal operands: no wrap past 0xFF (not defined by the documentation)
            if n > 1:
                st.assume.append(z3.ULE(self.a32 - IMEM + n, bv(0x100, 32)))
        else:
            st.assume.append(z3.ULE(self.a32 + n, bv(0x100000, 32)))
            st.assume.append(z3.ULE(self.a32, bv(0xFFFFF, 32)))


def locate(st: St, op, width, side_effects=True) -> Loc:
    """Operand -> location; applies pre-decrement / schedules post-increment."""
    if isinstance(op, IM):
        off = imem_off(st, op)
        return Loc(st, bv(IMEM, 32) + zx(off, 32), True)
    if isinstance(op, EA):
        return Loc(st, zx(op.addr, 32), False)
    if isinstance(op, ER):
        r = st.r[op.reg]
        if op.kind == "":
            return Loc(st, zx(r, 32), False)
        if op.kind == "++":
            loc = Loc(st, zx(r, 32), False)
            if side_effects:
                st.assume.append(z3.ULE(zx(r, 32) + width, bv(0x100000, 32)))
                st.r[op.reg] = r + width
            return loc
        if op.kind == "--":
            st.assume.append(z3.UGE(r, bv(width, 20)))
            nr = r - width
            if side_effects:
                st.r[op.reg] = nr
            return Loc(st, zx(nr, 32), False)
        if op.kind == "+":
            return Loc(st, zx(r, 32) + zx(op.off, 32), False)
        if op.kind == "-":
            st.assume.append(z3.UGE(zx(r, 32), zx(op.off, 32)))
            return Loc(st, zx(r, 32) - zx(op.off, 32), False)
    if isinstance(op, EI):
        off = imem_off(st, op.im)
        pa = bv(IMEM, 32) + zx(off, 32)
        st.assume.append(z3.ULE(zx(off, 32) + 3, bv(0x100, 32)))
        bs = []
        for i in range(3):
            st.areads.append((pa + i, True))
            bs.append(z3.Select(st.mem0, pa + i))
        p = zx(z3.Concat(bs[2], bs[1], bs[0]), 32)
        if op.sign == "+":
            p = p + zx(op.off, 32)
        elif op.sign == "-":
            st.assume.append(z3.UGE(p, zx(op.off, 32)))
            p = p - zx(op.off, 32)
        return Loc(st, p, False)
    raise SpecUnsupported(f"not a memory operand: {op}")


def is_mem(op):
    return isinstance(op, (IM, EA, ER, EI))


def read_operand(st: St, op, width):
    """Value (8*width bits) of a source operand."""
    if isinstance(op, R):
        return st.get_reg(op.name, width)
    if isinstance(op, Imm):
        return zx(op.val, 8 * width)
    loc = locate(st, op, width)
    loc.valid(width)
    return st.rd(loc.a32, width)


def write_operand(st: St, op, width, val, loc=None):
    if isinstance(op, R):
        st.set_reg(op.name, val)
        return
    if loc is None:
        loc = locate(st, op, width)
        loc.valid(width)
    st.wr(loc.a32, val, width)


def op_width(mn, ops):
    if mn in ("MVW", "EXW", "CMPW"):
        return 2
    if mn in ("MVP", "EXP", "CMPP"):
        return 3
    for o in ops:
        if isinstance(o, R):
            return REG_WIDTH[o.name]
    return 1


# ------------------------------------------------------------------ BCD helpers (valid digits only)


def bcd_valid(b8):
    return z3.And(z3.ULE(z3.Extract(3, 0, b8), bv(9, 4)), z3.ULE(z3.Extract(7, 4, b8), bv(9, 4)))


def bcd_to_int(b8):
    return zx(z3.Extract(7, 4, b8), 12) * 10 + zx(z3.Extract(3, 0, b8), 12)


def int_to_bcd(v12):
    tens = z3.UDiv(v12, bv(10, 12))
    ones = z3.URem(v12, bv(10, 12))
    return z3.Concat(z3.Extract(3, 0, tens), z3.Extract(3, 0, ones))


# ------------------------------------------------------------------ the instruction tables


def variants(mn, ops) -> int:
    """Number of readings of the documentation accepted for this form."""
    if mn == "MVL" and isinstance(ops[0], ER) and ops[0].kind == "--":
        return 2
    return 1


R1, R2, R3 = {"A", "IL"}, {"BA", "I"}, {"X", "Y", "U", "S"}


def documented(opcode, mn, ops) -> bool:
    """Register combinations the README tables list for the register-selector opcodes.
    Other selector values decode and render, but the documentation assigns them no
    meaning, so they are outside the claim."""
    names = [o.name for o in ops if isinstance(o, R)]
    if opcode == 0x11:
        return names[0] in R3
    if opcode in (0x44, 0x4C):
        return names[0] in R2 and names[1] in (R1 | R2)
    if opcode in (0x45, 0x4D):
        return names[0] in R3
    if opcode in (0x46, 0x4E):
        return names[0] in R1 and names[1] in R1
    if opcode == 0xD6:
        return names[0] in R2
    if opcode == 0xD7:
        return names[0] in R3
    if opcode in (0xFD, 0xED):
        return (names[0] in R2 and names[1] in R2) or (names[0] in R3 and names[1] in R3)
    return True


def step(mn, ops, pre, pc, ilen, N=3, variant=0, opcode=None, witness_mem=None) -> St:
    if opcode is not None and not documented(opcode, mn, ops):
        raise SpecUnsupported(f"register combination not in the documented forms of opcode {opcode:02X}")
    st = St(pre, pc, ilen, N)
    st.variant = variant
    st.witness_mem = witness_mem
    fn = _TABLE.get(mn)
    if fn is None:
        raise SpecUnsupported(f"no documented semantics for mnemonic {mn}")
    fn(st, mn, ops)
    # the documentation does not define an instruction whose own writes change
    # the bytes it forms addresses from (BP/PX/PY/pointer cells)
    for (w, wc) in st.writes:
        for (a, ac) in st.areads:
            c = w != a
            st.assume.append(c)
    return st


def _mv(st, mn, ops):
    dst, src = ops
    w = op_width(mn, ops)
    for a, b in ((dst, src), (src, dst)):
        if isinstance(a, ER) and a.kind in ("++", "--") and isinstance(b, R) and b.name == a.reg:
            raise SpecUnsupported("pointer register with ++/-- is also the data register: order not documented")
    if isinstance(dst, R) and isinstance(src, R):
        # MV r,r' : destination width decides; source zero-extended / truncated
        st.set_reg(dst.name, st.get_reg(src.name, 3))
        return
    if isinstance(dst, R) and isinstance(src, Imm):
        st.set_reg(dst.name, zx(src.val, 24))
        return
    # source value first (source side effects), then destination
    val = read_operand(st, src, w)
    write_operand(st, dst, w, val)


def _loop_bound(st):
    I = st.r["I"]
    st.assume.append(z3.UGE(I, bv(1, 16)))
    st.assume.append(z3.ULE(I, bv(st.N, 16)))
    return I


def _mvl(st, mn, ops):
    dst, src = ops
    I = _loop_bound(st)
    n32 = zx(I, 32)
    decrement = mn == "MVLD"

    # NOTE: README prints "[d++] <- [--s]" for MVL (n),[--r3]; the repository's
    # tests (MVL_(00)_[--X]_*) fix the reading that with a pre-decrement operand
    # *both* pointers walk downwards, as MVLD does.
    predec = any(isinstance(o, ER) and o.kind == "--" for o in ops)
    down = decrement or predec
    # MVL [--r3],(n): README prints "[--d] <- [s++]"; no test fixes the source
    # direction for this form, so both readings are accepted (variant 1 = s++).
    src_up = st.variant == 1

    def start(op):
        if isinstance(op, IM):
            off = imem_off(st, op)
            return ("i", off)
        if isinstance(op, ER) and op.kind in ("++", "--"):
            r = st.r[op.reg]
            if op.kind == "++":
                st.assume.append(z3.ULE(zx(r, 32) + n32, bv(0x100000, 32)))
                st.r[op.reg] = r + z3.Extract(19, 0, n32)
                return ("e", zx(r, 32))
            st.assume.append(z3.UGE(zx(r, 32), n32))
            st.r[op.reg] = r - z3.Extract(19, 0, n32)
            return ("e", zx(r, 32) - 1)
        loc = locate(st, op, 1, side_effects=False)
        a = loc.a32
        if down:
            st.assume.append(z3.UGE(a + 1, n32))
            st.assume.append(z3.ULE(a, bv(0xFFFFF, 32)))
        else:
            st.assume.append(z3.ULE(a + n32, bv(0x100000, 32)))
        return ("e", a)

    kd, d0 = start(dst)
    ks, s0 = start(src)

    def at(kind, base, k, dn):
        if kind == "i":
            o = base - k if dn else base + k  # 8-bit wrap inside internal RAM
            return bv(IMEM, 32) + zx(o, 32)
        return base - k if dn else base + k

    for k in range(st.N):
        active = z3.UGT(I, bv(k, 16))
        v = st.rd1(at(ks, s0, k, down and not src_up), active)
        st.wr1(at(kd, d0, k, down), v, active)
    st.r["I"] = bv(0, 16)


def _ex(st, mn, ops):
    a, b = ops
    w = op_width(mn, ops)
    if isinstance(a, R) and isinstance(b, R):
        va = st.get_reg(a.name, 3)
        vb = st.get_reg(b.name, 3)
        st.set_reg(a.name, vb)
        st.set_reg(b.name, va)
        return
    la = locate(st, a, w)
    lb = locate(st, b, w)
    la.valid(w)
    lb.valid(w)
    va = st.rd(la.a32, w)
    vb = st.rd(lb.a32, w)
    # documentation does not define overlapping exchange ranges
    st.assume.append(z3.Or(z3.UGE(la.a32, lb.a32 + w), z3.UGE(lb.a32, la.a32 + w), la.a32 == lb.a32))
    st.wr(la.a32, vb, w)
    st.wr(lb.a32, va, w)


def _nowrap(st, off, I, down):
    """Counted internal-memory blocks (other than MVL/MVLD, whose wrap the repository's
    tests fix) stay inside 0x00..0xFF: the documentation does not define a wrap."""
    if down:
        st.assume.append(z3.UGE(zx(off, 32) + 1, zx(I, 32)))
    else:
        st.assume.append(z3.ULE(zx(off, 32) + zx(I, 32), bv(0x100, 32)))


def _exl(st, mn, ops):
    a, b = ops
    I = _loop_bound(st)
    oa = imem_off(st, a)
    ob = imem_off(st, b)
    _nowrap(st, oa, I, False)
    _nowrap(st, ob, I, False)
    for k in range(st.N):
        active = z3.UGT(I, bv(k, 16))
        aa = bv(IMEM, 32) + zx(oa + k, 32)
        ab = bv(IMEM, 32) + zx(ob + k, 32)
        va = st.rd1(aa, active)
        vb = st.rd1(ab, active)
        st.wr1(aa, vb, active)
        st.wr1(ab, va, active)
    # overlapping blocks are not defined
    d = zx(oa - ob, 32)
    st.assume.append(z3.Or(oa == ob, z3.And(z3.UGE(d, zx(I, 32)), z3.UGE(zx(ob - oa, 32), zx(I, 32)))))
    st.r["I"] = bv(0, 16)


def _arith(sub, carry_in):
    def fn(st, mn, ops):
        dst, src = ops
        if isinstance(dst, R) and isinstance(src, R):
            wd = REG_WIDTH[dst.name]
            bits = 20 if wd == 3 else 8 * wd
            a = zx(st.get_reg(dst.name), bits + 1)
            b = zx(zx(st.get_reg(src.name), min(bits, st.get_reg(src.name).size())), bits + 1)
        else:
            w = 1
            bits = 8
            loc = None
            if is_mem(dst):
                loc = locate(st, dst, w)
                loc.valid(w)
                a = zx(st.rd(loc.a32, w), 9)
            else:
                a = zx(st.get_reg(dst.name, 1), 9)
            b = zx(read_operand(st, src, w), 9)
        c = zx(st.C(), bits + 1) if carry_in else bv(0, bits + 1)
        r = a - b - c if sub else a + b + c
        res = z3.Extract(bits - 1, 0, r)
        cout = z3.Extract(bits, bits, r)
        if isinstance(dst, R):
            st.set_reg(dst.name, zx(res, 24) if bits <= 24 else res)
        else:
            st.wr(loc.a32, res, 1)
        st.set_flags(c=cout, z=z3.If(res == 0, bv(1, 1), bv(0, 1)))

    return fn


def _multi(sub, bcd):
    def fn(st, mn, ops):
        dst, src = ops
        I = _loop_bound(st)
        od = imem_off(st, dst)
        src_is_reg = isinstance(src, R)
        _nowrap(st, od, I, bcd)
        if not src_is_reg:
            os_ = imem_off(st, src)
            _nowrap(st, os_, I, bcd)
        c = st.C()
        if bcd and not sub:
            # NOTE: README writes "(m)+(n)+C" for DADL; both cores and the
            # repository's tests start the decimal addition with carry 0, the
            # C in the formula being the inter-byte carry.  The incoming flag
            # is therefore not constrained here: both readings are accepted by
            # leaving the first-byte carry to the implementation's choice is
            # not possible in a functional spec, so the tested reading is used.
            c = bv(0, 1)
        allz = z3.BoolVal(True)
        for k in range(st.N):
            active = z3.UGT(I, bv(k, 16))
            o = (od - k) if bcd else (od + k)
            ad = bv(IMEM, 32) + zx(o, 32)
            a = st.rd1(ad, active)
            if src_is_reg:
                if bcd and k > 0:
                    # NOTE: DADL/DSBL (n),A: A supplies the first byte only
                    b = bv(0, 8)
                else:
                    b = st.get_reg(src.name, 1)
            else:
                o2 = (os_ - k) if bcd else (os_ + k)
                b = st.rd1(bv(IMEM, 32) + zx(o2, 32), active)
            if bcd:
                st.assume.append(z3.Implies(active, z3.And(bcd_valid(a), bcd_valid(b))))
                ai, bi, ci = bcd_to_int(a), bcd_to_int(b), zx(c, 12)
                if sub:
                    t = ai - bi - ci  # 12-bit two's complement
                    borrow = z3.ULT(ai, bi + ci)
                    t = z3.If(borrow, t + 100, t)
                    res = int_to_bcd(t)
                    nc = z3.If(borrow, bv(1, 1), bv(0, 1))
                else:
                    t = ai + bi + ci
                    carry = z3.UGE(t, bv(100, 12))
                    t = z3.If(carry, t - 100, t)
                    res = int_to_bcd(t)
                    nc = z3.If(carry, bv(1, 1), bv(0, 1))
            else:
                a9, b9, c9 = zx(a, 9), zx(b, 9), zx(c, 9)
                r9 = a9 - b9 - c9 if sub else a9 + b9 + c9
                res = z3.Extract(7, 0, r9)
                nc = z3.Extract(8, 8, r9)
            st.wr1(ad, res, active)
            c = z3.If(active, nc, c)
            allz = z3.If(active, z3.And(allz, res == 0), allz)
        if not src_is_reg:
            # overlapping source/destination blocks are not defined
            st.assume.append(
                z3.Or(
                    od == os_,
                    z3.And(z3.UGE(zx(od - os_, 32), zx(I, 32)), z3.UGE(zx(os_ - od, 32), zx(I, 32))),
                )
            )
        st.set_flags(c=c, z=z3.If(allz, bv(1, 1), bv(0, 1)))
        st.r["I"] = bv(0, 16)

    return fn


def _pmdf(st, mn, ops):
    # README: "(m) <- (m)+n (special BCD operation)", flags unaffected; the code
    # marks the semantics FIXME.  Only the frame is asserted: exactly (m) may change.
    dst, src = ops
    loc = locate(st, dst, 1)
    st.rd1(loc.a32)
    if is_mem(src):
        read_operand(st, src, 1)
    st.writes.append((loc.a32, True))
    st.havoc.append((loc.a32, 0xFF))


def _logic(op):
    def fn(st, mn, ops):
        dst, src = ops
        loc = None
        if is_mem(dst):
            loc = locate(st, dst, 1)
            loc.valid(1)
            a = st.rd(loc.a32, 1)
        else:
            a = st.get_reg(dst.name, 1)
        b = read_operand(st, src, 1)
        res = {"AND": a & b, "OR": a | b, "XOR": a ^ b}[op]
        if isinstance(dst, R):
            st.set_reg(dst.name, res)
        else:
            st.wr(loc.a32, res, 1)
        st.set_flags(z=z3.If(res == 0, bv(1, 1), bv(0, 1)))

    return fn


def _test(st, mn, ops):
    a = read_operand(st, ops[0], 1)
    b = read_operand(st, ops[1], 1)
    st.set_flags(z=z3.If((a & b) == 0, bv(1, 1), bv(0, 1)))


def _cmp(st, mn, ops):
    w = op_width(mn, [o for o in ops if not isinstance(o, R)] or ops)
    if mn == "CMP":
        w = 1
    a = read_operand(st, ops[0], w)
    b = read_operand(st, ops[1], w)
    st.set_flags(c=z3.If(z3.ULT(a, b), bv(1, 1), bv(0, 1)), z=z3.If(a == b, bv(1, 1), bv(0, 1)))


def _swap(st, mn, ops):
    a = st.get_reg("A", 1)
    res = z3.Concat(z3.Extract(3, 0, a), z3.Extract(7, 4, a))
    st.set_reg("A", res)
    st.set_flags(z=z3.If(res == 0, bv(1, 1), bv(0, 1)))
    # README marks C as affected but the Function column does not fix its value
    st.undefined.add("C")


def _shift(kind):
    def fn(st, mn, ops):
        (dst,) = ops
        loc = None
        if is_mem(dst):
            loc = locate(st, dst, 1)
            a = st.rd(loc.a32, 1)
        else:
            a = st.get_reg(dst.name, 1)
        c = st.C()
        if kind == "ROR":
            res = z3.Concat(z3.Extract(0, 0, a), z3.Extract(7, 1, a))
            nc = z3.Extract(0, 0, a)
        elif kind == "ROL":
            res = z3.Concat(z3.Extract(6, 0, a), z3.Extract(7, 7, a))
            nc = z3.Extract(7, 7, a)
        elif kind == "SHR":
            res = z3.Concat(c, z3.Extract(7, 1, a))
            nc = z3.Extract(0, 0, a)
        else:  # SHL
            res = z3.Concat(z3.Extract(6, 0, a), c)
            nc = z3.Extract(7, 7, a)
        if isinstance(dst, R):
            st.set_reg(dst.name, res)
        else:
            st.wr(loc.a32, res, 1)
        st.set_flags(c=nc, z=z3.If(res == 0, bv(1, 1), bv(0, 1)))

    return fn


def _dshift(left):
    def fn(st, mn, ops):
        (dst,) = ops
        I = _loop_bound(st)
        o0 = imem_off(st, dst)
        _nowrap(st, o0, I, left)
        # README: "Decimal Shift Left/Right Logical (multi-byte ... addrs dec./inc.)", Z affected,
        # C not.  The digit that moves between bytes is not specified by the documentation
        # (README, tests and both cores disagree with a plain decimal shift), so only what is
        # unambiguous is asserted: the first byte's own digit moves with a zero shifted in,
        # exactly the I bytes starting at (n) are written (walking down for DSLL, up for DSRL),
        # Z = all written bytes are zero, C and everything else unchanged, I <- 0.
        # Bytes 2..I take the implementation's value (st.witness_mem).
        allz = z3.BoolVal(True)
        for k in range(st.N):
            active = z3.UGT(I, bv(k, 16))
            o = (o0 - k) if left else (o0 + k)
            a32 = bv(IMEM, 32) + zx(o, 32)
            t = st.rd1(a32, active)
            hi, lo = z3.Extract(7, 4, t), z3.Extract(3, 0, t)
            if k == 0:
                res = z3.Concat(lo, bv(0, 4)) if left else z3.Concat(bv(0, 4), hi)
            else:
                if st.witness_mem is None:
                    raise SpecUnsupported("DSLL/DSRL beyond the first byte needs the implementation's memory as witness")
                res = z3.Select(st.witness_mem, a32)
            st.wr1(a32, res, active)
            allz = z3.If(active, z3.And(allz, res == 0), allz)
        st.set_flags(z=z3.If(allz, bv(1, 1), bv(0, 1)))
        st.r["I"] = bv(0, 16)

    return fn


def _incdec(delta):
    def fn(st, mn, ops):
        (dst,) = ops
        if isinstance(dst, R):
            wd = REG_WIDTH[dst.name]
            bits = 20 if wd == 3 else 8 * wd
            a = zx(st.get_reg(dst.name), bits)
            res = a + delta if delta > 0 else a - (-delta)
            st.set_reg(dst.name, zx(res, 24))
        else:
            loc = locate(st, dst, 1)
            a = st.rd(loc.a32, 1)
            res = a + delta if delta > 0 else a - (-delta)
            st.wr(loc.a32, res, 1)
        st.set_flags(z=z3.If(res == 0, bv(1, 1), bv(0, 1)))

    return fn


PAGE_ASSUME = True  # C06's page-edge classes switch this off: the two cores are compared with each other there, not with this spec


def _page_assume(st):
    # page-relative forms: the next instruction lies in the same 64 KiB page
    if not PAGE_ASSUME:
        return
    st.assume.append(z3.ULT(zx(z3.Extract(15, 0, st.pc), 32) + st.ilen, bv(0x10000, 32)))


def _cond(st, cc):
    if cc == "":
        return z3.BoolVal(True)
    flag = st.Z() if "Z" in cc else st.C()
    want = bv(0, 1) if "N" in cc else bv(1, 1)
    return flag == want


def _jp(st, mn, ops):
    (t,) = ops
    cc = mn[2:] if mn.startswith("JP") and mn != "JPF" else ""
    nxt = st.r["PC"]
    if isinstance(t, Imm) and t.bits == 16:
        _page_assume(st)
        target = z3.Concat(z3.Extract(19, 16, st.pc), t.val)
    elif isinstance(t, Imm) and t.bits == 20:
        target = t.val
    elif isinstance(t, R):
        target = zx(st.get_reg(t.name), 20)
    elif isinstance(t, IM):
        loc = locate(st, t, 3)
        loc.valid(3)
        target = z3.Extract(19, 0, st.rd(loc.a32, 3))
    else:
        raise SpecUnsupported(f"JP operand {t}")
    st.r["PC"] = z3.If(_cond(st, cc), target, nxt)


def _jr(st, mn, ops):
    (t,) = ops
    cc = mn[2:]
    nxt = st.r["PC"]
    d = zx(t.val, 20)
    target = nxt + d if t.sign == "+" else nxt - d
    st.r["PC"] = z3.If(_cond(st, cc), target, nxt)


def _call(st, mn, ops):
    (t,) = ops
    nxt = st.r["PC"]
    S = st.r["S"]
    if mn == "CALL":
        _page_assume(st)
        st.assume.append(z3.UGE(S, bv(2, 20)))
        ns = S - 2
        st.wr(zx(ns, 32), z3.Extract(15, 0, nxt), 2)
        st.r["PC"] = z3.Concat(z3.Extract(19, 16, st.pc), t.val)
    else:
        st.assume.append(z3.UGE(S, bv(3, 20)))
        ns = S - 3
        st.wr(zx(ns, 32), zx(nxt, 24), 3)
        st.r["PC"] = t.val
    st.r["S"] = ns


def _ret(st, mn, ops):
    S = st.r["S"]
    if mn == "RET":
        _page_assume(st)
        st.assume.append(z3.ULE(zx(S, 32) + 2, bv(0x100000, 32)))
        lo = st.rd(zx(S, 32), 2)
        st.r["PC"] = z3.Concat(z3.Extract(19, 16, st.pc), lo)
        st.r["S"] = S + 2
    elif mn == "RETF":
        st.assume.append(z3.ULE(zx(S, 32) + 3, bv(0x100000, 32)))
        v = st.rd(zx(S, 32), 3)
        st.r["PC"] = z3.Extract(19, 0, v)
        st.r["S"] = S + 3
    else:  # RETI
        st.assume.append(z3.ULE(zx(S, 32) + 5, bv(0x100000, 32)))
        imr = st.rd1(zx(S, 32))
        f = st.rd1(zx(S, 32) + 1)
        pcv = st.rd(zx(S, 32) + 2, 3)
        st.wr1(bv(IMEM + IMR, 32), imr)
        st.set_flags(c=z3.Extract(0, 0, f), z=z3.Extract(1, 1, f))
        st.r["PC"] = z3.Extract(19, 0, pcv)
        st.r["S"] = S + 5


def _pushpop(st, mn, ops):
    (r,) = ops
    sp = "U" if mn.endswith("U") else "S"
    w = REG_WIDTH[r.name]
    P = st.r[sp]
    if mn.startswith("PUSH"):
        st.assume.append(z3.UGE(P, bv(w, 20)))
        np_ = P - w
        val = st.get_reg(r.name, w)
        st.r[sp] = np_
        st.wr(zx(np_, 32), val, w)
        if r.name == "IMR":
            st.wr1(bv(IMEM + IMR, 32), val & 0x7F)
    else:
        st.assume.append(z3.ULE(zx(P, 32) + w, bv(0x100000, 32)))
        val = st.rd(zx(P, 32), w)
        st.r[sp] = P + w
        # POPU U / POPS S do not exist; popping into the stack pointer register is not a form
        st.set_reg(r.name, val)


def _nop(st, mn, ops):
    pass


def _sc(st, mn, ops):
    st.set_flags(c=bv(1, 1))


def _rc(st, mn, ops):
    st.set_flags(c=bv(0, 1))


def _lowpower(st, mn, ops):
    usr = st.rd1(bv(IMEM + USR, 32))
    st.wr1(bv(IMEM + USR, 32), (usr & 0xC0) | 0x18)
    ssr = st.rd1(bv(IMEM + SSR, 32))
    st.wr1(bv(IMEM + SSR, 32), ssr | 0x04)
    st.undefined |= {"C", "Z"}
    st.halted = z3.BoolVal(True)


def _wait(st, mn, ops):
    st.r["I"] = bv(0, 16)


def _ir(st, mn, ops):
    S = st.r["S"]
    st.assume.append(z3.UGE(S, bv(5, 20)))
    nxt = st.r["PC"]
    imr = st.rd1(bv(IMEM + IMR, 32))
    st.wr(zx(S - 3, 32), zx(nxt, 24), 3)
    st.wr1(zx(S - 4, 32), st.get_reg("F", 1))
    st.wr1(zx(S - 5, 32), imr)
    st.wr1(bv(IMEM + IMR, 32), imr & 0x7F)
    st.r["S"] = S - 5
    v = st.rd(bv(VECTOR, 32), 3)
    st.r["PC"] = z3.Extract(19, 0, v)


def _reset(st, mn, ops):
    lcc = st.rd1(bv(IMEM + LCC, 32))
    st.wr1(bv(IMEM + LCC, 32), lcc & 0x7F)
    st.wr1(bv(IMEM + UCR, 32), bv(0, 8))
    st.wr1(bv(IMEM + ISR, 32), bv(0, 8))
    st.wr1(bv(IMEM + SCR, 32), bv(0, 8))
    usr = st.rd1(bv(IMEM + USR, 32))
    st.wr1(bv(IMEM + USR, 32), (usr & 0xC0) | 0x18)
    # SSR bit 2: the README table says "set", the code comments and the tests say
    # "reset"; the bit is left unconstrained, the other SSR bits are retained.
    ssr = st.rd1(bv(IMEM + SSR, 32))
    st.wr1(bv(IMEM + SSR, 32), ssr)
    st.havoc.append((bv(IMEM + SSR, 32), 0x04))
    v = st.rd(bv(VECTOR, 32), 3)
    st.r["PC"] = z3.Extract(19, 0, v)


_TABLE = {
    "MV": _mv,
    "MVW": _mv,
    "MVP": _mv,
    "MVL": _mvl,
    "MVLD": _mvl,
    "EX": _ex,
    "EXW": _ex,
    "EXP": _ex,
    "EXL": _exl,
    "ADD": _arith(False, False),
    "ADC": _arith(False, True),
    "SUB": _arith(True, False),
    "SBC": _arith(True, True),
    "ADCL": _multi(False, False),
    "SBCL": _multi(True, False),
    "DADL": _multi(False, True),
    "DSBL": _multi(True, True),
    "PMDF": _pmdf,
    "AND": _logic("AND"),
    "OR": _logic("OR"),
    "XOR": _logic("XOR"),
    "TEST": _test,
    "CMP": _cmp,
    "CMPW": _cmp,
    "CMPP": _cmp,
    "SWAP": _swap,
    "ROR": _shift("ROR"),
    "ROL": _shift("ROL"),
    "SHR": _shift("SHR"),
    "SHL": _shift("SHL"),
    "DSLL": _dshift(True),
    "DSRL": _dshift(False),
    "INC": _incdec(1),
    "DEC": _incdec(-1),
    "JP": _jp,
    "JPF": _jp,
    "JPZ": _jp,
    "JPNZ": _jp,
    "JPC": _jp,
    "JPNC": _jp,
    "JR": _jr,
    "JRZ": _jr,
    "JRNZ": _jr,
    "JRC": _jr,
    "JRNC": _jr,
    "CALL": _call,
    "CALLF": _call,
    "RET": _ret,
    "RETF": _ret,
    "RETI": _ret,
    "PUSHU": _pushpop,
    "POPU": _pushpop,
    "PUSHS": _pushpop,
    "POPS": _pushpop,
    "NOP": _nop,
    "SC": _sc,
    "RC": _rc,
    "TCL": _nop,
    "HALT": _lowpower,
    "OFF": _lowpower,
    "WAIT": _wait,
    "IR": _ir,
    "RESET": _reset,
}
