"""addr_spec: operand descriptors parsed from the *rendered* token stream.

The rendered text is what the user sees in the disassembly; the documented
addressing rules (README "Internal RAM Addressing Prefix Byte Table" and the
operand notes of "Opcode Information Details") are applied to these
descriptors by specs/isa.py.  Numbers come back as z3 terms through the format
handles of the pysym engine, so a descriptor denotes the operand for *every*
value of the operand bytes at once.
"""
from __future__ import annotations

import re
from dataclasses import dataclass
from typing import Any, Optional

import z3

REG_WIDTH = {"A": 1, "B": 1, "IL": 1, "IH": 1, "BA": 2, "I": 2, "X": 3, "Y": 3, "U": 3, "S": 3, "PC": 3, "F": 1, "IMR": 1}

IMEM_NAMES = None


def imem_names():
    global IMEM_NAMES
    if IMEM_NAMES is None:
        from sc62015.pysc62015.instr.opcodes import IMEMRegisters

        IMEM_NAMES = {name: int(member) for name, member in IMEMRegisters.__members__.items()}
    return IMEM_NAMES


@dataclass
class R:  # register
    name: str

    def key(self):
        return f"R:{self.name}"


@dataclass
class Imm:
    val: Any  # z3 BV term (bits wide)
    bits: int

    def key(self):
        return f"imm{self.bits}"


@dataclass
class Rel:  # JR +n / -n
    sign: str
    val: Any  # BV8

    def key(self):
        return f"{self.sign}n"


@dataclass
class IM:  # internal memory (…)
    mode: str  # N, BP_N, PX_N, PY_N, BP_PX, BP_PY
    n: Any  # z3 BV8 term or None

    def key(self):
        return f"({self.mode})"


@dataclass
class EA:  # [lmn]
    addr: Any  # z3 BV20 term

    def key(self):
        return "[lmn]"


@dataclass
class ER:  # [r3], [r3++], [--r3], [r3+n], [r3-n]
    reg: str
    kind: str  # "", "++", "--", "+", "-"
    off: Any  # z3 BV8 term or None

    def key(self):
        return f"[r3{self.kind}]" if self.kind in ("", "++") else (f"[--r3]" if self.kind == "--" else f"[r3{self.kind}n]")


@dataclass
class EI:  # [(n)], [(m)+n], [(m)-n]
    im: IM
    sign: str  # "", "+", "-"
    off: Any

    def key(self):
        return f"[{self.im.key()}{self.sign}{'n' if self.sign else ''}]"


_HANDLE = re.compile(r"^⟦(\d+):([^⟧]*)⟧$")
_DIGITS = {"02X": 8, "04X": 16, "05X": 20}


class TokenParseError(Exception):
    pass


def _num(text: str, handles) -> tuple[Any, int]:
    """Number text (hex digits or a pysym handle) -> (z3 term, bits)."""
    m = _HANDLE.match(text)
    if m:
        spec = m.group(2)
        if spec not in _DIGITS:
            raise TokenParseError(f"unexpected format spec {spec}")
        bits = _DIGITS[spec]
        s = handles[text]
        return z3.simplify(z3.Extract(bits - 1, 0, s.t)), bits
    if not re.fullmatch(r"[0-9A-F]+", text):
        raise TokenParseError(f"not a number: {text!r}")
    bits = {2: 8, 4: 16, 5: 20}.get(len(text))
    if bits is None:
        raise TokenParseError(f"unexpected number width: {text!r}")
    return z3.BitVecVal(int(text, 16), bits), bits


def _taddr(value) -> Any:
    from engines.pysym.core import SymInt

    if type(value) is SymInt:
        return z3.simplify(z3.Extract(19, 0, value.t))
    return z3.BitVecVal(int(value), 20)


def parse_tokens(tokens, handles):
    """tokens (real Token objects from Instruction.render()) -> (mnemonic, [descriptors])."""
    from binja_test_mocks.tokens import TInstr, TSep, TText, TInt, TReg, TBegMem, TEndMem, TAddr, MemType

    if not tokens or not isinstance(tokens[0], TInstr):
        raise TokenParseError("no mnemonic token")
    mn = tokens[0].value
    # split operands on ", " separators at depth 0
    groups, cur, depth = [], [], 0
    for t in tokens[1:]:
        if isinstance(t, TSep) and depth == 0:
            if t.value.strip() == "," or t.value == ", ":
                groups.append(cur)
                cur = []
                continue
            if t.value.strip() == "":
                continue
        if isinstance(t, TBegMem):
            depth += 1
        if isinstance(t, TEndMem):
            depth -= 1
        cur.append(t)
    if cur:
        groups.append(cur)

    def parse_imem(ts):
        # ts: tokens between ( and )
        txt = [x for x in ts]
        if len(txt) == 1:
            t = txt[0]
            if isinstance(t, TInt):
                v, bits = _num(t.value, handles)
                if bits != 8:
                    raise TokenParseError("imem n not 8 bits")
                return IM("N", v)
            if isinstance(t, TText):
                names = imem_names()
                if t.value not in names:
                    raise TokenParseError(f"unknown imem name {t.value}")
                return IM("N", z3.BitVecVal(names[t.value], 8))
            raise TokenParseError(f"bad imem operand {txt}")
        if len(txt) == 3 and isinstance(txt[0], TText) and isinstance(txt[1], TSep) and txt[1].value == "+":
            base = txt[0].value
            t = txt[2]
            if isinstance(t, TText):
                if base == "BP" and t.value in ("PX", "PY"):
                    return IM("BP_" + t.value, None)
                raise TokenParseError(f"bad imem operand {txt}")
            if isinstance(t, TInt) and base in ("BP", "PX", "PY"):
                v, bits = _num(t.value, handles)
                if bits != 8:
                    raise TokenParseError("imem n not 8 bits")
                return IM(base + "_N", v)
        raise TokenParseError(f"bad imem operand {txt}")

    def parse_operand(ts):
        if len(ts) == 1:
            t = ts[0]
            if isinstance(t, TReg):
                return R(str(t.value))
            if isinstance(t, TInt):
                txt = t.value
                if txt[:1] in "+-":
                    v, bits = _num(txt[1:], handles)
                    return Rel(txt[0], v)
                v, bits = _num(txt, handles)
                return Imm(v, bits)
            raise TokenParseError(f"bad operand {ts}")
        if isinstance(ts[0], TBegMem) and isinstance(ts[-1], TEndMem):
            if ts[0].mem_type != ts[-1].mem_type:
                raise TokenParseError("mismatched brackets")
            inner = ts[1:-1]
            if ts[0].mem_type == MemType.INTERNAL:
                return parse_imem(inner)
            # external
            if len(inner) == 1 and isinstance(inner[0], TAddr):
                return EA(_taddr(inner[0].value))
            if isinstance(inner[0], TBegMem):
                # [( ... )±n]
                j = next(i for i, x in enumerate(inner) if isinstance(x, TEndMem))
                im = parse_imem(inner[1:j])
                rest = inner[j + 1 :]
                if not rest:
                    return EI(im, "", None)
                if len(rest) == 1 and isinstance(rest[0], TInt) and rest[0].value[:1] in "+-":
                    v, bits = _num(rest[0].value[1:], handles)
                    return EI(im, rest[0].value[0], v)
                raise TokenParseError(f"bad [(..)] operand {ts}")
            # register forms
            if len(inner) == 1 and isinstance(inner[0], TReg):
                return ER(str(inner[0].value), "", None)
            if len(inner) == 2 and isinstance(inner[0], TReg) and isinstance(inner[1], TText) and inner[1].value == "++":
                return ER(str(inner[0].value), "++", None)
            if len(inner) == 2 and isinstance(inner[1], TReg) and isinstance(inner[0], TText) and inner[0].value == "--":
                return ER(str(inner[1].value), "--", None)
            if len(inner) == 2 and isinstance(inner[0], TReg) and isinstance(inner[1], TInt) and inner[1].value[:1] in "+-":
                v, bits = _num(inner[1].value[1:], handles)
                return ER(str(inner[0].value), inner[1].value[0], v)
        raise TokenParseError(f"bad operand {ts}")

    ops = [parse_operand(g) for g in groups]
    return mn, ops


def signature(mn, ops) -> str:
    parts = [o.key() for o in ops]
    return mn + " " + ",".join(parts)
