#!/bin/bash
# usage: tools_try_mutation.sh <patch> <tier> <prop>...   -- applies the patch to /repo, runs the checks, reverts.
patch="$1"; tier="$2"; shift 2
cd /repo || exit 9
git -C /repo diff --quiet || { echo "/repo not clean"; exit 9; }
git -C /repo apply "$patch" || { echo "patch does not apply"; exit 9; }
for p in "$@"; do
  echo "=== $p on $(basename $patch)"
  ( cd /verif && timeout 3000 ./check $p --tier $tier 2>&1 | grep -E "^VIOLATION|^KNOWN|^HARNESS|violation class|^C[0-9]+ (quick|thorough)" | head -${MAXL:-12}; echo "exit=${PIPESTATUS[0]}" )
done
git -C /repo checkout -- . ; git -C /repo status --short | head -3
