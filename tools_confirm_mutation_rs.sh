#!/bin/bash
# usage: tools_confirm_mutation_rs.sh <PROP> <k>   (worktree /tmp/wt/<PROP>r) -- confirms a Rust-side mutation and files it
P="$1"; K="$2"; WT=/tmp/wt/${P}r; M=$WT/MUTATION; S=/tmp/wt/${P}r-rs-confirm
cd $WT || exit 9
git checkout -q -- . ; git apply --check $M/m$K.patch || { echo "patch does not apply"; exit 9; }
run_demo() {
  if [ -f $M/m${K}_demo.rs ]; then
    VERIF_REPO=$WT /tmp/wt/rustbuild.sh $S >/dev/null 2>&1
    mkdir -p $S/core/examples; cp $M/m${K}_demo.rs $S/core/examples/m${K}_demo.rs
    ( cd $S/core && CARGO_NET_OFFLINE=true timeout 600 cargo run --offline --example m${K}_demo >/tmp/demo_rs.out 2>&1 ); return $?
  else
    FORCE_BINJA_MOCK=1 PYTHONPATH=$WT /venv/bin/python $M/m${K}_demo.py >/tmp/demo_rs.out 2>&1; return $?
  fi
}
run_demo; clean=$?
git apply $M/m$K.patch
run_demo; mut=$?
build=$( cd $S/core 2>/dev/null && CARGO_NET_OFFLINE=true cargo build --offline --lib 2>&1 | tail -1 )
suite=$(FORCE_BINJA_MOCK=1 timeout 900 /venv/bin/python -m pytest -q -p no:cacheprovider --timeout=900 --continue-on-collection-errors 2>&1 | tail -1)
git checkout -q -- .
rm -rf $S
echo "demo clean exit=$clean, with mutation exit=$mut, build: $build, suite: $suite"
if [ $clean -eq 0 ] && [ $mut -ne 0 ] && echo "$suite" | grep -q "17 failed, 412 passed"; then
  D=/verif/seeded/${P}r-m$K; mkdir -p $D
  cp $M/m$K.patch $D/patch.diff; cp $M/m${K}_demo.* $D/ 2>/dev/null; cp $M/m${K}_notes.md $D/notes.md
  echo "CONFIRMED -> $D"
else
  echo "NOT CONFIRMED"; tail -5 /tmp/demo_rs.out
fi
