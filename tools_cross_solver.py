#!/usr/bin/env python3
"""Second-solver validation of the encodings (maintainer tool, decides no property).

usage: .venv/bin/python tools_cross_solver.py <property id> [sample-percent]

Runs the property's quick check in-process with checks.isa_exec.solve wrapped: a deterministic sample of the decided queries
(path condition AND negated obligation, exactly as handed to z3 5.1.0) is written as SMT-LIB2 together with z3's verdict.
Every dumped query is then re-decided by /usr/bin/z3 (4.8.12) and the cvc5 binary; a disagreement or an `(error` line is
reported.  Results: out/cross_solver_<id>.json.  The run writes its evidence / replay files under out/trials/cross-<id>.
"""
import hashlib
import json
import os
import subprocess
import sys
import time

prop = sys.argv[1]
rate = float(sys.argv[2]) if len(sys.argv) > 2 else 1.0
VERIF = os.path.dirname(os.path.abspath(__file__))
os.environ["VERIF_OUT_SUFFIX"] = f"cross-{prop}"
os.environ.setdefault("FORCE_BINJA_MOCK", "1")
sys.path.insert(0, VERIF)
DUMP = os.path.join(VERIF, "out", "cross", prop)
os.makedirs(DUMP, exist_ok=True)
for f in os.listdir(DUMP):
    os.unlink(os.path.join(DUMP, f))

import z3  # noqa: E402
from checks import isa_exec as X  # noqa: E402
from checks.registry import RUNNERS  # noqa: E402

_orig = X.solve
_n = [0]


def solve(constraints, extra, *a, **k):
    r, m, dt = _orig(constraints, extra, *a, **k)
    if r in ("sat", "unsat"):
        s = z3.Solver()
        s.add(*constraints)
        s.add(*extra)
        text = s.to_smt2()
        h = int(hashlib.sha1(text.encode()).hexdigest()[:8], 16)
        if (h % 10000) < rate * 100:
            _n[0] += 1
            with open(os.path.join(DUMP, f"{os.getpid()}-{_n[0]}.smt2"), "w") as f:
                f.write(f"; expected: {r}\n(set-logic ALL)\n" + text)
    return r, m, dt


X.solve = solve
modname, fn, args = RUNNERS[prop]
mod = __import__(f"checks.{modname}", fromlist=[fn])
t0 = time.time()
rc = getattr(mod, fn)(*args, "quick")
print(f"check exit {rc}, {time.time() - t0:.0f}s")

files = sorted(os.listdir(DUMP))
res = {"property": prop, "sample_percent": rate, "queries": len(files), "z3_4_8_12": {"agree": 0, "disagree": [], "unknown": 0, "error": []},
       "cvc5_1_0": {"agree": 0, "disagree": [], "unknown": 0, "error": []}, "expected": {"sat": 0, "unsat": 0}}


def run(cmd, path):
    try:
        cp = subprocess.run(cmd + [path], capture_output=True, text=True, timeout=90)
    except subprocess.TimeoutExpired:
        return "unknown", ""
    out = (cp.stdout + cp.stderr).strip()
    first = out.splitlines()[0].strip() if out else ""
    if "(error" in out or first not in ("sat", "unsat", "unknown", "timeout"):
        return "error", out[:200]
    return ("unknown" if first in ("unknown", "timeout") else first), ""


from concurrent.futures import ThreadPoolExecutor  # noqa: E402


def one(f):
    p = os.path.join(DUMP, f)
    exp = open(p).readline().split(":")[1].strip()
    return f, exp, run(["/usr/bin/z3", "-T:60"], p), run(["cvc5", "--tlimit=60000"], p)


with ThreadPoolExecutor(16) as ex:
    for f, exp, a, b in ex.map(one, files):
        res["expected"][exp] += 1
        for key, (v, msg) in (("z3_4_8_12", a), ("cvc5_1_0", b)):
            if v == exp:
                res[key]["agree"] += 1
            elif v == "unknown":
                res[key]["unknown"] += 1
            elif v == "error" and "at-most" in msg:
                res[key].setdefault("skipped_z3_extension_at_most", 0)
                res[key]["skipped_z3_extension_at_most"] += 1  # z3's pseudo-boolean (_ at-most k) is not SMT-LIB; cvc5 cannot parse it
            elif v == "error":
                res[key]["error"].append((f, msg))
            else:
                res[key]["disagree"].append((f, exp, v))
json.dump(res, open(os.path.join(VERIF, "out", f"cross_solver_{prop}.json"), "w"), indent=1)
print(json.dumps({k: (v if not isinstance(v, dict) else {kk: (vv if not isinstance(vv, list) else len(vv)) for kk, vv in v.items()}) for k, v in res.items()}))
bad = res["z3_4_8_12"]["disagree"] or res["cvc5_1_0"]["disagree"]
sys.exit(3 if bad else 0)
