"""Concrete replay for C01/C02 counterexamples (clean interpreter, unmodified code)."""
from __future__ import annotations


def _consumers(arch, data, addr):
    from binja_test_mocks.mock_llil import MockLowLevelILFunction

    out = {}
    for name in ("info", "text", "llil"):
        try:
            if name == "info":
                r = arch.get_instruction_info(data, addr)
                out[name] = None if r is None else ("ok", r.length)
            elif name == "text":
                r = arch.get_instruction_text(data, addr)
                out[name] = None if r is None else ("ok", r[1], "".join(t.text for t in r[0]))
            else:
                il = MockLowLevelILFunction()
                r = arch.get_instruction_low_level_il(data, addr, il)
                out[name] = None if r is None else ("ok", r, repr(il.ils))
        except Exception as e:  # noqa: BLE001
            out[name] = ("exc", type(e).__name__, str(e)[:100])
    return out


def replay(rec):
    from sc62015.arch import SC62015
    from sc62015.pysc62015.instr import decode, encode, OPCODES
    from sc62015.pysc62015.emulator import Emulator, _FallbackInstruction
    from binja_test_mocks.eval_llil import Memory
    from binja_test_mocks.mock_llil import MockLowLevelILFunction
    from binja_test_mocks.tokens import asm_str

    arch = SC62015.__new__(SC62015)
    data = bytes(rec["bytes"])
    addr = rec["addr"]
    ob = rec["obligation"]
    c = _consumers(arch, data, addr)
    print("consumers:", {k: (v[:2] if v else None) for k, v in c.items()})
    if ob.startswith("unexpected-exception:"):
        name = ob.split(":")[1]
        if name in ("emulator", "emulator-rejected"):
            return _emulator(rec, data) == "exc"
        return c[name] is not None and c[name][0] == "exc"
    if ob == "length-out-of-range":
        i = decode(data, addr, OPCODES)
        return i is not None and not (1 <= i.length() <= len(data))
    info = c["info"]
    if ob == "info-accepts-text-rejects":
        return info is not None and info[0] == "ok" and (c["text"] is None or c["text"][0] != "ok")
    if ob == "info-accepts-llil-rejects":
        return info is not None and info[0] == "ok" and (c["llil"] is None or c["llil"][0] != "ok")
    if ob.startswith("length-differs:") or ob.startswith("mnemonic-differs:") or ob == "info-accepts-emulator-rejects":
        who = ob.split(":")[1] if ":" in ob else "emulator"
        if info is None or info[0] != "ok":
            return False
        if who == "emulator" or ob == "info-accepts-emulator-rejects":
            r = _emulator(rec, data[: info[1]])
            i = decode(data, addr, OPCODES)
            if ob == "info-accepts-emulator-rejects":
                return r == "fallback"
            if ob.startswith("length"):
                return isinstance(r, tuple) and r[1] != info[1]
            return isinstance(r, tuple) and r[0] != i.name()
        r = c[who]
        if ob.startswith("length"):
            return r is not None and r[0] == "ok" and r[1] != info[1]
        i = decode(data, addr, OPCODES)
        return r is not None and r[0] == "ok" and not r[2].startswith(i.name())
    if ob.startswith("tail:"):
        if info is None or info[0] != "ok":
            return False
        ln = info[1]
        d2 = data[:ln] + bytes(rec["tail"])
        c2 = _consumers(arch, d2, addr)
        print("with tail:", {k: (v[:2] if v else None) for k, v in c2.items()})
        if ob.startswith("tail:unexpected-exception:"):
            name = ob.split(":")[2]
            return c2[name] is not None and c2[name][0] == "exc"
        if ob == "tail:info-rejects":
            return c2["info"] is None
        if ob == "tail:length-changes":
            return c2["info"] is not None and c2["info"][0] == "ok" and c2["info"][1] != ln
        if ob == "tail:text-changes":
            return c["text"] and c2["text"] and c["text"][0] == "ok" and c2["text"][0] == "ok" and c["text"][2] != c2["text"][2]
    if ob == "history:earlier-result-changed":
        i = decode(data, addr, OPCODES)
        before = asm_str(i.render())
        other = bytes(b if b is not None else 0 for b in rec["other"])
        try:
            decode(other, addr, OPCODES)
        except AssertionError:
            pass
        return asm_str(i.render()) != before
    if ob.startswith("C02:"):
        i = decode(data, addr, OPCODES)
        if i is None:
            return False
        ln = i.length()
        if ob == "C02:text-demotes-valid-instruction":
            return info is not None and info[0] == "ok" and c["text"] is None
        if ob == "C02:encode-differs-after-another-decode":
            # another instruction of the same opcode (operand bytes xor 0x5A) is decoded in between
            cls = rec["class"].split(":")
            nhead = (0 if cls[0] == "--" else len(cls[0]) // 2) + 1
            other = bytes(data[:nhead]) + bytes(b ^ 0x5A for b in data[nhead:])
            try:
                decode(other, addr, OPCODES)
            except AssertionError:
                pass
            try:
                enc3 = bytes(encode(i, addr))
            except Exception as e:  # noqa: BLE001
                print("encode raised after another decode", type(e).__name__, e)
                return True
            print("bytes", data[:ln].hex(), "other", other.hex(), "encode afterwards", enc3.hex())
            return enc3 != data[:ln]
        if ob.startswith("C02:unexpected-exception"):
            want = ob.split(":")[2]
            try:
                enc = bytes(encode(i, addr))
                i2 = decode(enc, addr, OPCODES)
                if i2 is not None:
                    i2.render()
                    a, b = MockLowLevelILFunction(), MockLowLevelILFunction()
                    i.lift(a, addr)
                    i2.lift(b, addr)
            except Exception as e:  # noqa: BLE001
                print("round trip raised", type(e).__name__, e)
                return type(e).__name__ == want
            return False
        try:
            enc = bytes(encode(i, addr))
        except Exception as e:  # noqa: BLE001
            print("encode raised", type(e).__name__, e)
            return False
        if ob == "C02:encode-differs":
            print("bytes", data[:ln].hex(), "encode", enc.hex())
            return enc != data[:ln]
        i2 = decode(enc, addr, OPCODES)
        if ob == "C02:re-decode-rejects":
            return i2 is None
        if i2 is None:
            return False
        if ob == "C02:re-decode-length":
            return i2.length() != ln
        if ob == "C02:re-decode-text":
            return asm_str(i2.render()) != asm_str(i.render())
        if ob == "C02:re-decode-il":
            a, b = MockLowLevelILFunction(), MockLowLevelILFunction()
            i.lift(a, addr)
            i2.lift(b, addr)
            import re

            norm = lambda s: re.sub(r"0x[0-9a-f]+>", ">", repr(s))  # noqa: E731
            return norm(a.ils) != norm(b.ils)
    print("unknown obligation", ob)
    return False


def _emulator(rec, data):
    from sc62015.pysc62015.emulator import Emulator, _FallbackInstruction
    from binja_test_mocks.eval_llil import Memory

    mem = bytearray(0x100100)
    base = 0x040000
    mem[base : base + len(data)] = data
    emu = Emulator(Memory(lambda a: mem[a], lambda a, v: mem.__setitem__(a, v)), reset_on_init=False)
    try:
        i = emu.decode_instruction(base)
    except Exception as e:  # noqa: BLE001
        print("emulator fetch raised", type(e).__name__, e)
        return "exc"
    if isinstance(i, _FallbackInstruction):
        return "fallback"
    return (i.name(), i.length())
