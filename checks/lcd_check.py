"""C15 (Python model): HD61202 protocol conformance and the VRAM -> pixel map.

One read or one write through the real ``HD61202Controller`` from an arbitrary state of
both chips (on/busy/start line/page/column symbolic, VRAM a z3 array), address and value
symbolic: z3 decides equality with hd61202_spec (this file).  The display buffer is built
by the real ``get_display_buffer`` over fully symbolic VRAM and every one of the 240x32
pixels is compared with the single VRAM bit the documented layout assigns to it.
"""
from __future__ import annotations

import sys
import time
import types

import z3

from . import common
from . import isa_exec as X
from engines.pysym import core
from engines.pysym.core import SymInt, SymBool, explore
from engines.pysym.containers import SymGrid


def bv(v, n):
    return z3.BitVecVal(v, n)


# ------------------------------------------------------------------ hd61202_spec


def spec_decode(addr16):
    hi = addr16 & 0xF000
    window = z3.Or(hi == 0x2000, hi == 0xA000)
    lo = z3.Extract(3, 0, addr16)
    rw = z3.Extract(0, 0, lo)  # 1 = read
    di = z3.Extract(1, 1, lo)  # 1 = data
    cs = z3.Extract(3, 2, lo)  # 00 both, 01 right, 10 left, 11 none
    return window, rw, di, cs


def spec_selected(cs, chip):  # chip 0 = left, 1 = right
    return z3.Or(cs == 0, cs == (2 if chip == 0 else 1))


def spec_write(st, addr16, val8):
    window, rw, di, cs = spec_decode(addr16)
    ok = z3.And(window, rw == 0, cs != 3)
    out = []
    for chip in (0, 1):
        s = st[chip]
        sel = z3.And(ok, spec_selected(cs, chip))
        instr = z3.Extract(7, 6, val8)
        is_i = z3.And(sel, di == 0)
        is_d = z3.And(sel, di == 1)
        n = dict(s)
        n["on"] = z3.If(z3.And(is_i, instr == 0), z3.Extract(0, 0, val8) == 1, s["on"])
        n["start"] = z3.If(z3.And(is_i, instr == 3), z3.Extract(5, 0, val8), s["start"])
        n["page"] = z3.If(z3.And(is_i, instr == 2), z3.Extract(2, 0, val8), s["page"])
        y_i = z3.If(z3.And(is_i, instr == 1), z3.Extract(5, 0, val8), s["y"])
        n["y"] = z3.If(is_d, s["y"] + 1, y_i)
        n["busy"] = z3.If(sel, z3.BoolVal(True), s["busy"])
        idx = z3.Concat(bv(0, 7), s["page"], s["y"])  # page*64 + y
        n["vram"] = z3.If(is_d, z3.Store(s["vram"], idx, val8), s["vram"])
        out.append(n)
    return out


def spec_read(st, addr16):
    """-> (new state, has_value Bool, value BV8)"""
    window, rw, di, cs = spec_decode(addr16)
    ok = z3.And(window, rw == 1, z3.Or(cs == 1, cs == 2))
    out = []
    val = bv(0, 8)
    for chip in (0, 1):
        s = st[chip]
        sel = z3.And(ok, cs == (2 if chip == 0 else 1))
        n = dict(s)
        rd_d = z3.And(sel, di == 1)
        rd_s = z3.And(sel, di == 0)
        col = s["y"] - 1  # data read returns the previous column (6-bit wrap)
        data = z3.Select(s["vram"], z3.Concat(bv(0, 7), s["page"], col))
        status = z3.Concat(z3.If(s["busy"], bv(1, 1), bv(0, 1)), bv(0, 1), z3.If(s["on"], bv(0, 1), bv(1, 1)), bv(0, 5))
        n["y"] = z3.If(rd_d, s["y"] + 1, s["y"])
        n["busy"] = z3.If(rd_s, z3.BoolVal(False), s["busy"])
        val = z3.If(rd_d, data, z3.If(rd_s, status, val))
        out.append(n)
    return out, ok, val


def spec_pixel(row, col):
    """(chip, page, column, bit) whose VRAM bit drives display pixel (row, col)."""
    bit = row % 8
    if col < 64:
        return 1, row // 8, col, bit
    if col < 120:
        return 0, row // 8, col - 64, bit
    if col < 176:
        return 0, 4 + row // 8, 55 - (col - 120), bit
    return 1, 4 + row // 8, 63 - (col - 176), bit


# ------------------------------------------------------------------ harness


class _NpStub:
    uint8 = "uint8"

    class _Grid:
        def __init__(self, shape):
            self.shape = shape
            self.cells = {}

        def __setitem__(self, key, v):
            self.cells[key] = v

        def __getitem__(self, key):
            return self.cells.get(key, 0)

    def zeros(self, shape, dtype=None):
        return _NpStub._Grid(shape)


class _Sink:
    """Stands in for HD61202.vram_pc_source (PC provenance per VRAM byte; not part of the property)."""

    def __getitem__(self, i):
        return self

    def __setitem__(self, i, v):
        pass


def make_controller():
    import pce500.display.controller_wrapper as CW

    ctl = CW.HD61202Controller()
    st = []
    for i, chip in enumerate(ctl.chips):
        grid = SymGrid(f"vram{i}", 8, 64)
        chip.vram = grid
        chip.vram_pc_source = _Sink()
        on = SymInt.var(f"on{i}", 1)
        busy = SymInt.var(f"busy{i}", 1)
        chip.state.on = on != 0
        chip.state.busy = busy != 0
        chip.state.start_line = SymInt.var(f"start{i}", 6)
        chip.state.page = SymInt.var(f"page{i}", 3)
        chip.state.y_address = SymInt.var(f"y{i}", 6)
        st.append({"on": z3.BitVec(f"on{i}", 1) == 1, "busy": z3.BitVec(f"busy{i}", 1) == 1, "start": z3.BitVec(f"start{i}", 6),
                   "page": z3.BitVec(f"page{i}", 3), "y": z3.BitVec(f"y{i}", 6), "vram": grid.arr})
    return ctl, st


def _b(x):
    if isinstance(x, SymBool):
        return x.t
    if isinstance(x, SymInt):
        return x.t != 0
    return z3.BoolVal(bool(x))


def impl_state(ctl):
    out = []
    for chip in ctl.chips:
        s = chip.state
        out.append({"on": _b(s.on), "busy": _b(s.busy), "start": core.term_of(s.start_line, 6), "page": core.term_of(s.page, 3),
                    "y": core.term_of(s.y_address, 6), "vram": chip.vram.arr,
                    "start_hi": core.term_of(s.start_line, 32), "page_hi": core.term_of(s.page, 32), "y_hi": core.term_of(s.y_address, 32)})
    return out


def state_diff(impl, spec):
    x = z3.BitVec("x_vram", 16)
    d = []
    for i in (0, 1):
        a, b = impl[i], spec[i]
        d += [(f"chip{i}.on", a["on"] != b["on"]), (f"chip{i}.busy", a["busy"] != b["busy"]),
              (f"chip{i}.start_line", a["start_hi"] != z3.ZeroExt(26, b["start"])), (f"chip{i}.page", a["page_hi"] != z3.ZeroExt(29, b["page"])),
              (f"chip{i}.column", a["y_hi"] != z3.ZeroExt(26, b["y"])),
              (f"chip{i}.vram", z3.And(z3.ULT(x, bv(512, 16)), z3.Select(a["vram"], x) != z3.Select(b["vram"], x)))]
    return d


def run_case(item):
    tier, case = item
    X.setup()
    res = {"key": case, "paths": 0, "obligations": 0, "discharged": 0, "unknown": 0, "cex": [], "solver_time": 0.0, "samples": [], "inconclusive": []}

    if case.startswith("pixels"):
        return run_pixels(tier, case, res)

    def fn():
        ctl, st = make_controller()
        addr = SymInt.var("addr", 16)
        val = SymInt.var("val", 8)
        if case == "write":
            ctl.write(addr, val)
            return {"impl": impl_state(ctl), "spec": spec_write(st, z3.BitVec("addr", 16), z3.BitVec("val", 8)), "ret": None}
        if case == "read":
            r = ctl.read(addr)
            spec, has, v = spec_read(st, z3.BitVec("addr", 16))
            return {"impl": impl_state(ctl), "spec": spec, "ret": r, "has": has, "val": v}
        if case.startswith("seq:"):
            # read latency / busy behaviour over a sequence of three operations: the low nibbles
            # (chip select, data/instruction, read/write) are fixed per case, window and values symbolic
            _, l1, l2, l3 = case.split(":")
            eng = core.engine()
            a2, a3 = SymInt.var("addr2", 16), SymInt.var("addr3", 16)
            v2 = SymInt.var("val2", 8)
            for a, lo in ((addr, l1), (a2, l2), (a3, l3)):
                eng.assume((a & 0xF) == int(lo, 16))
                eng.assume(((a & 0xF000) == 0x2000) | ((a & 0xF000) == 0xA000))
            ctl.write(addr, val)
            ctl.write(a2, v2)
            r = ctl.read(a3)
            s1 = spec_write(st, z3.BitVec("addr", 16), z3.BitVec("val", 8))
            s2 = spec_write(s1, z3.BitVec("addr2", 16), z3.BitVec("val2", 8))
            spec, has, v = spec_read(s2, z3.BitVec("addr3", 16))
            return {"impl": impl_state(ctl), "spec": spec, "ret": r, "has": has, "val": v}
        raise AssertionError(case)

    try:
        paths, stats = explore(fn, max_paths=20000, deadline_s=400)
    except core.PathLimit as e:
        res["inconclusive"].append(str(e))
        return res
    res["paths"] = len(paths)
    res["solver_time"] += stats.solver_time
    for p in paths:
        if p.status != "ok":
            if p.status == "inconclusive":
                res["inconclusive"].append(p.detail[:100])
            else:
                res["cex"].append({"key": f"{case}|raises|{type(p.exc).__name__}", "summary": repr(p.exc)[:200], "payload": None})
            continue
        v = p.value
        checks = state_diff(v["impl"], v["spec"])
        if "has" in v:
            r = v["ret"]
            if r is None:
                checks.append(("read-returns-none", v["has"]))
            else:
                checks.append(("read-value", z3.Or(z3.Not(v["has"]), core.term_of(r, 32) != z3.ZeroExt(24, v["val"]))))
        for name, neg in checks:
            res["obligations"] += 1
            r_, m, dt = X.solve(p.constraints, [neg])
            res["solver_time"] += dt
            if r_ == "unsat":
                res["discharged"] += 1
                if len(res["samples"]) < 1:
                    res["samples"].append({"case": case, "obligation": name, "negated_post_head": neg.sexpr()[:140]})
            elif r_ == "sat":
                payload = _payload(case, name, m)
                res["cex"].append({"key": f"{case}|{name}", "summary": f"{case}: {name} addr={payload['ops']}", "payload": payload})
            else:
                res["unknown"] += 1
    return res


def _payload(case, name, m):
    ev = lambda n_, b: m.eval(z3.BitVec(n_, b), model_completion=True).as_long()  # noqa: E731
    chips = []
    for i in (0, 1):
        arr = z3.Array(f"vram{i}", z3.BitVecSort(16), z3.BitVecSort(8))
        default, entries = X.array_image(m, arr)
        chips.append({"on": ev(f"on{i}", 1), "busy": ev(f"busy{i}", 1), "start": ev(f"start{i}", 6), "page": ev(f"page{i}", 3), "y": ev(f"y{i}", 6),
                      "vram_default": default, "vram": {str(a): b for a, b in entries.items() if a < 512}})
    ops = {"addr": ev("addr", 16), "val": ev("val", 8), "addr2": ev("addr2", 16), "val2": ev("val2", 8), "addr3": ev("addr3", 16)}
    return {"property": "C15", "kind": "lcd", "key": f"{case}|{name}", "case": case, "obligation": name, "chips": chips, "ops": ops, "x_vram": ev("x_vram", 16)}


def run_pixels(tier, case, res):
    import pce500.display.controller_wrapper as CW

    stub = _NpStub()

    def fn():
        ctl, st = make_controller()
        saved = CW.np
        CW.np = stub
        try:
            buf = ctl.get_display_buffer()
        finally:
            CW.np = saved
        return {"buf": buf, "st": st}

    paths, stats = explore(fn, max_paths=64)
    res["paths"] = len(paths)
    res["solver_time"] += stats.solver_time
    for p in paths:
        if p.status != "ok":
            res["cex"].append({"key": f"pixels|raises|{type(p.exc).__name__}", "summary": repr(p.exc)[:200], "payload": None})
            continue
        buf, st = p.value["buf"], p.value["st"]
        if buf.shape != (32, 240):
            res["cex"].append({"key": "pixels|shape", "summary": str(buf.shape), "payload": None})
            continue
        for row in range(32):
            bad = []
            for col in range(240):
                chip, page, c, bit = spec_pixel(row, col)
                want = z3.And(st[chip]["on"], z3.Extract(bit, bit, z3.Select(st[chip]["vram"], bv(page * 64 + c, 16))) == 0)
                got = core.term_of(buf[row, col], 8)
                bad.append(got != z3.If(want, bv(1, 8), bv(0, 8)))
            res["obligations"] += 1
            r_, m, dt = X.solve(p.constraints, [z3.Or(*bad)])
            res["solver_time"] += dt
            if r_ == "unsat":
                res["discharged"] += 1
                if not res["samples"]:
                    res["samples"].append({"case": "pixels", "obligation": f"row {row}: 240 pixels each equal NOT(one VRAM bit) AND chip on"})
            elif r_ == "sat":
                cols = [c for c in range(240) if z3.is_true(m.eval(bad[c], model_completion=True))]
                payload = _payload("pixels", f"row{row}", m)
                payload["row"], payload["cols"] = row, cols[:8]
                res["cex"].append({"key": f"pixels|row{row // 8 * 8}-cols{cols[0] // 8 * 8}", "summary": f"pixel ({row},{cols[0]}) differs from its VRAM bit", "payload": payload})
            else:
                res["unknown"] += 1
    # the documented map itself: injective, and one VRAM byte drives 8 pixels of one display column
    seen = {}
    ok = True
    for row in range(32):
        for col in range(240):
            k = spec_pixel(row, col)
            if k in seen:
                ok = False
            seen[k] = (row, col)
    bycell = {}
    for (chip, page, c, bit), (row, col) in seen.items():
        bycell.setdefault((chip, page, c), set()).add(col)
    ok = ok and all(len(v) == 1 for v in bycell.values())
    res["obligations"] += 1
    if ok:
        res["discharged"] += 1
    else:
        res["cex"].append({"key": "pixels|spec-map-not-injective", "summary": "spec map", "payload": None})
    return res


def rust_inputs():
    """Symbolic inputs of harness_lcd_*: the same variables as the Python harness (on/start/page/y/busy, VRAM arrays)."""
    ins = {}
    st = []
    for chip in (0, 1):
        arr = z3.Array(f"vram{chip}", z3.BitVecSort(16), z3.BitVecSort(8))
        base = 100 + chip * 10
        ins[base] = z3.ZeroExt(31, z3.BitVec(f"on{chip}", 1))
        ins[base + 1] = z3.ZeroExt(26, z3.BitVec(f"start{chip}", 6))
        ins[base + 2] = z3.ZeroExt(29, z3.BitVec(f"page{chip}", 3))
        ins[base + 3] = z3.ZeroExt(26, z3.BitVec(f"y{chip}", 6))
        ins[base + 4] = z3.ZeroExt(31, z3.BitVec(f"busy{chip}", 1))
        for i in range(512):
            ins[1000 + chip * 1000 + i] = z3.ZeroExt(24, z3.Select(arr, bv(i, 16)))
        st.append({"on": z3.BitVec(f"on{chip}", 1) == 1, "busy": z3.BitVec(f"busy{chip}", 1) == 1, "start": z3.BitVec(f"start{chip}", 6),
                   "page": z3.BitVec(f"page{chip}", 3), "y": z3.BitVec(f"y{chip}", 6), "vram": arr})
    return ins, st


def spec_display_byte(st, page, col):
    """VRAM byte shown at display page/column by the documented layout (as spec_pixel, whole bytes)."""
    chip, p, c, _bit = spec_pixel(page * 8, col)
    return z3.Select(st[chip]["vram"], bv(p * 64 + c, 16))


_RS_SNAP = {}


def _vars(t):
    out, seen, todo = set(), set(), [t]
    while todo:
        x = todo.pop()
        if x.get_id() in seen:
            continue
        seen.add(x.get_id())
        if z3.is_const(x) and x.decl().kind() == z3.Z3_OP_UNINTERPRETED:
            out.add(str(x))
        todo.extend(x.children())
    return out


def _rust_prepared(img, ins, busy):
    """Run harness_lcd_prepare once (fork-free: the busy flags are concrete per class) and keep the machine snapshot."""
    from engines.rsym import interp

    if busy not in _RS_SNAP:
        hooks = {"verif_in": lambda m, i: ins.get(i, 0), "verif_out": lambda m, i, v: None, "verif_load": lambda m, a: 0, "verif_store": lambda m, a, v: None}
        m = interp.Machine(img, hooks)
        m.array_mode = True
        m.STEP_LIMIT = 40_000_000
        m.merge_tables = True
        m.run(img.mod.functions["harness_lcd_prepare"], [])
        # the two 512-byte VRAM blocks now hold Select(vramN, k) byte by byte: find them and switch them to array mode
        # over vramN itself, so that symbolic page/column accesses are single array reads instead of 512-way merges
        where = {0: {}, 1: {}}
        for a, c in m.mem.items():
            if type(c) is int:
                continue
            t = z3.simplify(c if type(c) is not tuple else z3.Extract(8 * c[1] + 7, 8 * c[1], c[0]))
            if t.decl().kind() == z3.Z3_OP_SELECT and z3.is_bv_value(t.arg(1)) and str(t.arg(0)) in ("vram0", "vram1"):
                where[int(str(t.arg(0))[-1])].setdefault(t.arg(1).as_long(), []).append(a)
        for chip in (0, 1):
            locs = where[chip]
            if sorted(locs) != list(range(512)) or any(len(v) != 1 for v in locs.values()):
                raise RuntimeError(f"VRAM of chip {chip} not found as one 512-byte block after preparation")
            base = locs[0][0]
            if any(locs[k][0] != base + k for k in range(512)):
                raise RuntimeError(f"VRAM of chip {chip} is not laid out page-major/contiguous")
            arr = z3.Array(f"vram{chip}", z3.BitVecSort(16), z3.BitVecSort(8))
            m.adopt_array(base, 512, lambda off, arr=arr: z3.Select(arr, z3.Extract(15, 0, off)))
        # the four register cells per chip are found the same way: the one heap byte whose contents mention only that input
        fields = {}
        for a, c in m.mem.items():
            if type(c) is int or a < interp.HEAP_BASE or a >= m.heap:
                continue
            t = z3.simplify(c if type(c) is not tuple else z3.Extract(8 * c[1] + 7, 8 * c[1], c[0]))
            names = _vars(t)
            if len(names) == 1:
                (nm,) = names
                if nm[:-1] in ("on", "start", "page", "y"):
                    fields.setdefault(nm, []).append(a)
        for chip in (0, 1):
            for f in ("on", "start", "page", "y"):
                if len(fields.get(f"{f}{chip}", [])) != 1:
                    raise RuntimeError(f"register cell {f}{chip} not located uniquely in the controller object: {fields.get(f'{f}{chip}')}")
        vbase = {chip: [o for o in m.arrays][chip][0] for chip in (0, 1)}
        _RS_SNAP[busy] = (m.snapshot(), m.steps, {k: v[0] for k, v in fields.items()}, vbase)
    return _RS_SNAP[busy]


def run_rust_case(item):
    tier, case, busy = item
    X.setup()
    from engines.rsym import build, interp

    img, _b = build.image()
    key = f"rust:{case}:busy={busy[0]}{busy[1]}"
    res = {"key": key, "paths": 0, "obligations": 0, "discharged": 0, "unknown": 0, "cex": [], "solver_time": 0.0, "samples": [], "inconclusive": []}
    ins, st0 = rust_inputs()
    for chip in (0, 1):
        ins[100 + chip * 10 + 4] = busy[chip]
        st0[chip]["busy"] = z3.BoolVal(bool(busy[chip]))
    addr = z3.BitVec("addr", 16)
    val = z3.BitVec("val", 8)
    entry = "harness_lcd_pixels2" if case == "pixels" else "harness_lcd_op2"
    snap, prep_steps, fields, vbase = _rust_prepared(img, ins, busy)
    if case != "pixels":
        ins[200] = 0 if case == "write" else 1
        ins[201] = z3.ZeroExt(16, addr)
        ins[202] = z3.ZeroExt(24, val)

    def fn():
        out = {}
        hooks = {"verif_in": lambda m, i: ins.get(i, 0), "verif_out": lambda m, i, v: out.__setitem__(i, v),
                 "verif_load": lambda m, a: 0, "verif_store": lambda m, a, v: None}
        m = interp.Machine(img, hooks)
        m.array_mode = True
        m.STEP_LIMIT = 40_000_000
        m.merge_tables = True
        m.resume(snap)
        m.run(img.mod.functions[entry], [])
        post = {nm: m.load_bytes(a, 1) for nm, a in fields.items()}
        for chip in (0, 1):
            post[f"vram{chip}"] = next(o[2] for o in m.arrays if o[0] == vbase[chip])
        return out, m.steps + prep_steps, post

    try:
        paths, stats = explore(fn, max_paths=3000, deadline_s=900, timeout_ms=10000)
    except core.PathLimit as e:
        res["inconclusive"].append(str(e))
        return res
    res["paths"] = len(paths)
    res["solver_time"] += stats.solver_time
    T = interp.to_term
    for p in paths:
        if p.status != "ok":
            if p.status == "inconclusive":
                res["inconclusive"].append(p.detail[:100])
            else:
                res["cex"].append({"key": f"{key}|raises|{type(p.exc).__name__}", "summary": repr(p.exc)[:200], "payload": None})
            continue
        out, steps, post = p.value
        checks = []
        if case == "pixels":
            # one obligation per (chip, display start line): the 6-bit start line is case-split, the 8192 VRAM bits stay symbolic
            per_chip = {0: [], 1: []}
            for row in range(32):
                for col in range(240):
                    chip, page, c, bit = spec_pixel(row, col)
                    # the Rust display buffer scrolls each chip by its display start line (HD61202 "display start line":
                    # display line d shows RAM line (d + start) mod 64) and does not gate on the on flag; for every start
                    # line the pixel is one VRAM bit of the chip/column spec_pixel names
                    yv = bv(page * 8 + bit, 6) + st0[chip]["start"]
                    byte = z3.Select(st0[chip]["vram"], z3.Concat(bv(0, 7), z3.Extract(5, 3, yv), bv(c, 6)))
                    want = (z3.LShR(byte, z3.ZeroExt(5, z3.Extract(2, 0, yv))) & 1) == 0
                    per_chip[chip].append(T(out[50_000 + row * 240 + col], 32) != z3.If(want, bv(1, 32), bv(0, 32)))
            for chip in (0, 1):
                neg = z3.Or(*per_chip[chip])
                for k in range(64):
                    negk = z3.simplify(z3.substitute(neg, (st0[chip]["start"], bv(k, 6))))
                    checks.append((f"pixels chip{chip} start_line={k}", negk, [st0[chip]["start"] == k]))
        else:
            if case == "write":
                spec = spec_write(st0, addr, val)
                has, v = z3.BoolVal(False), bv(0, 8)
            else:
                spec, has, v = spec_read(st0, addr)
            r = T(out[0], 32)
            if case == "read":
                checks.append(("read-value", r != z3.If(has, z3.ZeroExt(24, v), bv(0x100, 32))))
            k = z3.BitVec("x_vram", 16)
            for chip in (0, 1):
                sp = spec[chip]
                checks.append((f"chip{chip}.on", (T(post[f"on{chip}"], 8) != 0) != sp["on"]))
                checks.append((f"chip{chip}.start_line", T(post[f"start{chip}"], 8) != z3.ZeroExt(2, sp["start"])))
                checks.append((f"chip{chip}.page", T(post[f"page{chip}"], 8) != z3.ZeroExt(5, sp["page"])))
                checks.append((f"chip{chip}.column", T(post[f"y{chip}"], 8) != z3.ZeroExt(2, sp["y"])))
                checks.append((f"chip{chip}.vram", z3.And(z3.ULT(k, 512), z3.Select(post[f"vram{chip}"], bv(vbase[chip], 64) + z3.ZeroExt(48, k)) != z3.Select(sp["vram"], k))))
                # busy (and on, again) through the protocol: a status read after the operation
                a_st = bv(0x2000 | ((2 if chip == 0 else 1) << 2) | 0b01, 16)
                _s3, _h3, v3 = spec_read(spec, a_st)
                checks.append((f"chip{chip}.status (busy/on)", T(out[20 + chip], 32) != z3.ZeroExt(24, v3)))
                checks.append((f"chip{chip}.stats.on", (T(out[40 + chip], 32) != 0) != sp["on"]))
        for chk in checks:
            name, neg = chk[0], chk[1]
            res["obligations"] += 1
            if z3.is_false(neg):
                r_, m_, dt = "unsat", None, 0.0
            else:
                r_, m_, dt = X.solve(list(p.constraints) + (chk[2] if len(chk) > 2 else []), [neg])
            res["solver_time"] += dt
            if r_ == "unsat":
                res["discharged"] += 1
                if len(res["samples"]) < 1:
                    res["samples"].append({"case": key, "obligation": name, "rust_ir_steps": steps, "negated_post_head": neg.sexpr()[:140]})
            elif r_ == "sat":
                payload = _payload(case, name, m_)
                payload["rust"] = True
                payload["busy"] = list(busy)
                payload["key"] = f"{key}|{name}"
                a_ = payload["ops"]["addr"]
                cls = f"rw={a_ & 1},di={(a_ >> 1) & 1},cs={(a_ >> 2) & 3}" if case != "pixels" else "-"
                res["cex"].append({"key": f"{key}|{cls}|{name.split(' (')[0]}", "summary": f"{key}: {name} ops={payload['ops']}", "payload": payload})
            else:
                res["unknown"] += 1
    return res


def main(tier):
    t0 = time.time()
    X.setup()
    rep = common.Report("C15")
    cases = ["write", "read", "pixels"] + [f"seq:{a}:{b}:{c}" for a in ("0", "8") for b in ("2", "6") for c in ("7", "B", "5", "9")]
    from engines.rsym import build

    build.ensure_built()
    build.image()
    rs_items = [(tier, c, (b0, b1)) for c in ("write", "read", "pixels") for b0 in (0, 1) for b1 in (0, 1)]
    results = common.pool_map(run_case, [(tier, c) for c in cases]) + common.pool_map(run_rust_case, rs_items)
    cases = cases + [f"rust:{c}:busy={b[0]}{b[1]}" for _t, c, b in rs_items]
    tot = {k: 0 for k in ("paths", "obligations", "discharged", "unknown")}
    solver_time = 0.0
    samples, inconcl, cex = [], [], {}
    for r in results:
        if "fatal" in r:
            rep.harness_errors.append(f"{r['item']}: {r['fatal']}\n{r.get('tb', '')}")
            continue
        for k in tot:
            tot[k] += r[k]
        solver_time += r["solver_time"]
        samples += r["samples"]
        inconcl += r["inconclusive"]
        for c in r["cex"]:
            cex.setdefault(c["key"], c)
    for k, c in sorted(cex.items()):
        if c["payload"] is None:
            rep.harness_errors.append(f"{k}: {c['summary']}")
        else:
            rep.counterexample(k, c["payload"], c["summary"])
    if tot["obligations"] < 200:
        rep.harness_errors.append(f"vacuity guard: only {tot['obligations']} obligations")
    if tot["unknown"] or inconcl:
        rep.harness_errors.append(f"inconclusive: {tot['unknown']} {inconcl[:3]}")
    code = rep.finish()
    wall = time.time() - t0
    coverage = {
        "obligations": tot["obligations"], "discharged": tot["discharged"], "evaluations": tot["paths"], "distinct_nontrivial": len(cases),
        "rule": "one symbolic operation (write / read / 3-op sequence) from an arbitrary two-chip state with symbolic address and value; the display buffer over fully symbolic VRAM",
        "samples": samples[:6], "checker_cmd": "./check C15 --tier " + tier, "trusted_base": ["z3 5.1.0", "engines/pysym", "hd61202_spec in checks/lcd_check.py"],
        "explanation": "Inductive step over arbitrary controller states: z3 decides, for all 16-bit addresses (both windows, all low-nibble decodings, addresses outside the windows) and all values, that chip state, VRAM and returned value equal the HD61202 protocol spec; all 7680 pixels of get_display_buffer are decided equal to NOT(their VRAM bit) AND chip-on for fully symbolic VRAM; the documented map is injective and column-local.",
        "solver_time_s": round(solver_time, 2),
        "functions_encoded": ["pce500.display.hd61202.decode_access/parse_command/HD61202.write_instruction/write_data/read_data/read_instruction_status",
                              "pce500.display.pipeline.LCDPipeline.apply/_apply_command", "pce500.display.controller_wrapper.HD61202Controller.read/write/get_display_buffer",
                              "Rust (LLVM IR): sc62015_core::lcd::LcdController::new/write/read/display_buffer/display_vram_bytes/stats, decode_access, parse_command, Hd61202Chip::*"],
        "bounds": {"operations": "1 operation from an arbitrary state (induction) + one 3-operation sequence", "pixels": "all 240x32, exhaustive",
                   "rust_model": "LcdController::write/read/display_buffer/display_vram_bytes from the crate's LLVM IR; the private chip state is driven to an arbitrary state through the protocol itself (1024 symbolic data writes + mode writes) and observed through follow-up protocol reads"},
    }
    assumptions = ["stubs: numpy.zeros + item assignment replaced by a 32x240 grid for get_display_buffer; HD61202.vram replaced by a z3-array-backed grid",
                   "HD61202.vram_pc_source (PC provenance bookkeeping) replaced by a sink", "chip state invariant: page < 8, column < 64, start line < 64 (established by parse_command's masks)"]
    common.write_evidence("C15", tier, "other", coverage, assumptions, wall, len(rep.violations))
    print(f"C15 {tier}: paths={tot['paths']} obligations={tot['obligations']} discharged={tot['discharged']} cex={len(cex)} solver={solver_time:.1f}s wall={wall:.1f}s")
    return code
