"""C03 / C04: one symbolic run per encoding class through the real Emulator,
obligations decided by z3 against specs/isa.py (README tables)."""
from __future__ import annotations

import sys
import time

import z3

from . import common
from . import isa_exec as X

QUICK_PREFIXES = [None, 0x25, 0x36, 0x33]
HEAVY = {0x56, 0x5E, 0xCB, 0xCF, 0xD3, 0xDB, 0xE3, 0xEB, 0xF3, 0xFB, 0xC3, 0xC4, 0xC5, 0xD4, 0xD5, 0x54, 0x55, 0x5C, 0x5D, 0xEC, 0xFC, 0xFE, 0xE0, 0xE1, 0xE2, 0xE8, 0xE9, 0xEA}
PROP_FUN = {"C04": "c04_terms", "C03": "c03_terms"}

_PROBE = None


def probe():
    global _PROBE
    if _PROBE is None:
        X.setup()
        _PROBE = X.structure_probe_cached()
    return _PROBE


def classes(tier):
    pr = probe()
    prefixes = QUICK_PREFIXES if tier == "quick" else [None] + X.PRE_BYTES
    import os

    if os.environ.get("VERIF_PREFIXES"):  # debugging aid: restrict the case split
        prefixes = [None if x == "--" else int(x, 16) for x in os.environ["VERIF_PREFIXES"].split(",")]
    out = []
    for p in prefixes:
        for op in range(256):
            if op in X.PRE_BYTES:
                continue
            by_len = pr.get(op, {})
            for ln, b2s in sorted(by_len.items()):
                n = ln + (1 if p is not None else 0)
                b2 = None if len(by_len) == 1 and len(b2s) == 256 else tuple(b2s)
                out.append((p, op, n, b2))
    # longest-processing-time-first: the counted / multi-structure classes dominate the wall time
    out.sort(key=lambda c: (0 if c[1] in HEAVY else 1))
    # prefixed runs only where a prefix can matter (an internal-memory operand exists); thorough was sized by wall time
    # (all 15 PRE bytes and I <= 3, named-register operands only without a prefix: about half an hour on 16 cores)
    im = imem_opcodes()
    out = [c for c in out if c[0] is None or c[1] in im]
    return out


def imem_opcodes():
    from sc62015.pysc62015.instr import OPCODES
    from sc62015.pysc62015.instr.opcodes import IMem8, RegIMemOffset, EMemIMem, EMemIMemOffset, Opts

    out = set()
    for op, d in OPCODES.items():
        opts = d[1] if isinstance(d, tuple) else None
        for o in (opts.ops or []) if opts else []:
            if isinstance(o, (IMem8, RegIMemOffset, EMemIMem, EMemIMemOffset)):
                out.add(op)
    return out


def run_class(item):
    prop, tier, (prefix, opcode, n, b2) = item
    X.setup()
    N = 2 if tier == "quick" else 3
    t0 = time.time()
    key = f"{'--' if prefix is None else '%02X' % prefix}:{opcode:02X}:n{n}"
    res = {
        "key": key, "paths": 0, "exec": 0, "skip": 0, "invalid": 0, "inconclusive": [], "obligations": 0,
        "discharged": 0, "vacuous": 0, "cex": [], "sigs": {}, "solver_time": 0.0, "samples": [], "unknown": 0,
    }
    try:
        paths, stats = X.run_paths(prefix, opcode, n, b2_set=b2, N=N, max_paths=8000, named_limit=0 if (tier == "quick" or prefix is not None) else 1,
                                   deadline_s=120 if tier == "quick" else 900)
    except X.core.PathLimit as e:
        res["inconclusive"].append(f"path limit: {e}")
        return res
    res["paths"] = len(paths)
    res["solver_time"] += stats.solver_time
    res["solver_checks"] = stats.solver_checks
    fun = getattr(X, PROP_FUN[prop])
    from specs import operands as O
    from specs.isa import SpecUnsupported

    for p in paths:
        if p.status == "inconclusive":
            res["inconclusive"].append(p.detail[:120])
            continue
        if p.status == "exception":
            # the harness itself (parse_tokens ...) or decode raised outside execute
            res["cex"].append({"key": f"{key}|harness-exception|{type(p.exc).__name__}", "summary": repr(p.exc)[:200], "payload": None})
            continue
        v = p.value
        if v["kind"] == "skip":
            res["skip"] += 1
            continue
        if v["kind"] == "invalid":
            res["invalid"] += 1
            continue
        res["exec"] += 1
        sig = O.signature(v["mn"], v["ops"])
        res["sigs"][sig] = res["sigs"].get(sig, 0) + 1
        try:
            specs = X.build_specs(v, N, opcode)
        except SpecUnsupported as e:
            res["undocumented"] = res.get("undocumented", 0) + 1
            continue
        if "exc" in v:
            # a valid instruction must execute: any state inside the documented domain is a counterexample
            A = z3.Or(*[z3.And(*st.assume) if st.assume else z3.BoolVal(True) for st in specs])
            r, m, dt = X.solve(p.constraints, [A])
            res["solver_time"] += dt
            res["obligations"] += 1
            if r == "sat":
                payload = X.cex_payload(prop, key, v, specs, m, prefix, opcode)
                payload["exception"] = repr(v["exc"])[:200]
                res["cex"].append({"key": f"{'pre' if prefix is not None else 'nopre'}|{sig}|raises-{type(v['exc']).__name__}", "summary": f"{v['text']}: {v['exc']!r}"[:200], "payload": payload})
            elif r == "unsat":
                res["vacuous"] += 1
                res["obligations"] -= 1
            else:
                res["unknown"] += 1
            continue
        A, viol = fun(v, specs)
        r1, _m, dt = X.solve(p.constraints, [A])
        res["solver_time"] += dt
        if r1 == "unsat":
            res["vacuous"] += 1
            continue
        if r1 != "sat":
            res["unknown"] += 1
            continue
        res["obligations"] += 1
        r2, m, dt = X.solve_any(p.constraints, A, viol)
        res["solver_time"] += dt
        if r2 == "unsat":
            res["discharged"] += 1
            if len(res["samples"]) < 1:
                res["samples"].append({"class": key, "text": v["text"], "signature": sig, "path_constraints": len(p.constraints), "negated_post_head": (viol[0] if isinstance(viol, list) and viol else viol).sexpr()[:160] if viol is not None and viol != [] else ""})
        elif r2 == "sat":
            payload = X.cex_payload(prop, key, v, specs, m, prefix, opcode)
            pfx = "pre" if prefix is not None else "nopre"
            kinds = X.mismatch_kinds(v, m) if prop == "C04" else "access"
            res["cex"].append({"key": f"{pfx}|{sig}|{kinds}", "summary": v["text"], "payload": payload})
        else:
            res["unknown"] += 1
    res["wall"] = time.time() - t0
    return res


def main(prop, tier):
    t0 = time.time()
    rep = common.Report(prop)
    items = [(prop, tier, c) for c in classes(tier)]
    results = common.pool_map(run_class, items)
    tot = {k: 0 for k in ("paths", "exec", "skip", "invalid", "obligations", "discharged", "vacuous", "unknown")}
    solver_time = 0.0
    inconcl = []
    sigs = {}
    samples = []
    cex_by_key = {}
    for r in results:
        if "fatal" in r:
            rep.harness_errors.append(f"{r['item']}: {r['fatal']}\n{r.get('tb', '')}")
            continue
        for k in tot:
            tot[k] += r[k]
        solver_time += r["solver_time"]
        inconcl += [f"{r['key']}: {x}" for x in r["inconclusive"]]
        for s, c in r["sigs"].items():
            sigs[s] = sigs.get(s, 0) + c
        if r["samples"] and len(samples) < 12:
            samples += r["samples"]
        for c in r["cex"]:
            cex_by_key.setdefault(c["key"], c)
    for key, c in sorted(cex_by_key.items()):
        if c["payload"] is None:
            rep.harness_errors.append(f"{key}: {c['summary']}")
        else:
            rep.counterexample(key, c["payload"], c["summary"])
    n_incon = len(inconcl) + tot["unknown"]
    floor = 300 if tier == "quick" else 1500
    extra = []
    if tot["obligations"] < floor:
        rep.harness_errors.append(f"vacuity guard: only {tot['obligations']} obligations (< {floor})")
    if n_incon > 0.05 * max(1, tot["obligations"]):
        rep.harness_errors.append(f"too many inconclusive obligations: {n_incon}: {inconcl[:5]}")
    wall = time.time() - t0
    coverage = {
        "programs": len(sigs),
        "disagreements_checked": len(cex_by_key),
        "obligations": tot["obligations"],
        "discharged": tot["discharged"],
        "inconclusive": n_incon,
        "evaluations": tot["paths"],
        "distinct_nontrivial": len(sigs),
        "rule": "one symbolic run per (prefix, opcode, length) class; a case is non-trivial when it executes a validly decoded instruction; distinct = distinct (mnemonic, operand-mode) signatures",
        "samples": samples[:8],
        "paths": tot,
        "classes": len(items),
        "solver_time_s": round(solver_time, 2),
        "inconclusive_details": inconcl[:20],
        "functions_encoded": [
            "sc62015.pysc62015.emulator.Emulator.execute_instruction/_execute_instruction_impl/decode_instruction/evaluate",
            "sc62015.pysc62015.emulator.Registers.get/set/get_flag/set_flag",
            "sc62015.pysc62015.instr.opcodes.* (decode, fusion, render, lift, lift_assign of every operand class)",
            "sc62015.pysc62015.instr.instructions.* (every lift)",
            "sc62015.pysc62015.intrinsics.*",
            "binja_test_mocks.eval_llil.evaluate_llil and every EVAL_LLIL entry reached",
        ],
        "bounds": {
            "prefixes": ["none" if p is None else f"{p:02X}" for p in (QUICK_PREFIXES if tier == "quick" else [None] + X.PRE_BYTES)],
            "I": f"1..{2 if tier == 'quick' else 3} for counted instructions",
            "pc": hex(X.PC0),
            "next_instruction": "NOP (the decoder looks ahead; C01 covers trailing-byte independence)",
            "operands_registers_memory": "fully symbolic (8/16/20/24-bit values, whole memory as an array)",
        },
        "known_findings_hit": {k: len(v) for k, v in rep.known_hits.items()},
    }
    assumptions = [
        "oracle = specs/isa.py, written from sc62015/pysc62015/README.md (reading notes marked NOTE there)",
        "external accesses stay inside 0x00000..0xFFFFF and multi-byte internal operands do not wrap past 0xFF (the documentation defines neither)",
        "an instruction's own writes do not hit the bytes it forms addresses from (BP/PX/PY/pointer cells)",
        "BCD instructions: valid BCD digits only; F bits 2..7 and TEMP registers are not architectural (C07 covers TEMP)",
        "the third-party LLIL evaluator is executed as it is (binja_test_mocks), Python ints modelled by 64-bit vectors with interval overflow guards",
    ]
    code = rep.finish()
    coverage["known_findings_hit"] = {k: len(v) for k, v in rep.known_hits.items()}
    coverage["disagreements_checked"] = rep.nreplay
    common.write_evidence(prop, tier, "translation_validation", coverage, assumptions, wall, len(rep.violations))
    print(f"{prop} {tier}: classes={len(items)} paths={tot['paths']} exec={tot['exec']} obligations={tot['obligations']} discharged={tot['discharged']} "
          f"vacuous={tot['vacuous']} inconclusive={n_incon} cex_classes={len(cex_by_key)} solver={solver_time:.1f}s wall={wall:.1f}s")
    return code


if __name__ == "__main__":
    sys.exit(main(sys.argv[1], sys.argv[2]))
