"""Shared plumbing for the checks: process pool, solver calls, evidence, known findings, replay."""
from __future__ import annotations

import json
import multiprocessing as mp
import os
import subprocess
import sys
import time
import traceback

VERIF = os.path.dirname(os.path.dirname(os.path.abspath(__file__)))
REPO = os.environ.get("VERIF_REPO", "/repo")
OUT = os.path.join(VERIF, "out")
EVID = os.path.join(VERIF, "evidence")
if os.environ.get("VERIF_OUT_SUFFIX"):
    # trial runs against a scratch tree (seeded changes): keep their replay files and evidence apart from the registered ones
    OUT = os.path.join(VERIF, "out", "trials", os.environ["VERIF_OUT_SUFFIX"])
    EVID = os.path.join(OUT, "evidence")
KNOWN = os.path.join(VERIF, "known_findings.jsonl")

EXIT_OK, EXIT_VIOLATION, EXIT_HARNESS = 0, 1, 3


def seed() -> int:
    try:
        return int(os.environ.get("VERIF_SEED", "0"))
    except ValueError:
        return 0


def ncpu() -> int:
    try:
        return max(1, min(16, len(os.sched_getaffinity(0))))
    except Exception:
        return 8


def _worker(args):
    fn, item = args
    t0 = time.time()
    try:
        r = fn(item)
        if isinstance(r, dict):
            r.setdefault("wall", time.time() - t0)
        return r
    except BaseException as e:  # noqa: BLE001 - engine exceptions are BaseException
        return {"item": repr(item), "fatal": f"{type(e).__name__}: {e}", "tb": traceback.format_exc(limit=12)}


def pool_map(fn, items, procs=None, chunksize=1):
    """Run fn over items in forked workers (fn must be a module-level function)."""
    items = list(items)
    procs = procs or ncpu()
    if procs == 1 or len(items) <= 1:
        return [_worker((fn, it)) for it in items]
    ctx = mp.get_context("fork")
    with ctx.Pool(procs, maxtasksperchild=64) as pool:
        return list(pool.imap_unordered(_worker, [(fn, it) for it in items], chunksize))


# ------------------------------------------------------------------ known findings


def load_known(prop):
    """-> (list of open findings, list of fixed records) for the property."""
    open_, fixed = [], []
    if not os.path.exists(KNOWN):
        return open_, fixed
    for line in open(KNOWN):
        line = line.strip()
        if not line or line.startswith("#"):
            continue
        rec = json.loads(line)
        if rec.get("property") != prop:
            continue
        if rec.get("key_list"):
            # exact counterexample keys of this finding, one per line "<finding id>\t<key>" in a committed file
            rec["exact"] = set()
            for kl in open(os.path.join(VERIF, rec["key_list"])):
                kl = kl.rstrip("\n")
                if kl and not kl.startswith("#"):
                    fid, _, k = kl.partition("\t")
                    if fid == rec["id"]:
                        rec["exact"].add(k)
        (fixed if rec.get("status") == "fixed" else open_).append(rec)
    return open_, fixed


def match_known(open_findings, key: str):
    """A finding lists regular expressions that must match the whole counterexample key."""
    import re

    for f in open_findings:
        if key in f.get("exact", ()):
            return f
        for pat in f.get("keys", []):
            if re.fullmatch(pat, key):
                return f
    return None


# ------------------------------------------------------------------ replay


def write_replay(prop, n, payload) -> str:
    d = os.path.join(OUT, "replay", prop)
    os.makedirs(d, exist_ok=True)
    p = os.path.join(d, f"{n}.json")
    with open(p, "w") as f:
        json.dump(payload, f, indent=1, default=str)
    return p


def run_replay(path, timeout=120):
    """Replay a counterexample against the unmodified real code in a clean
    interpreter (no import hook). -> (reproduced: bool|None, output)."""
    env = dict(os.environ)
    env["PYTHONPATH"] = VERIF + os.pathsep + REPO
    env["FORCE_BINJA_MOCK"] = "1"
    env["PYTHONDONTWRITEBYTECODE"] = "1"
    try:
        cp = subprocess.run(
            [sys.executable, "-m", "checks.replay", path],
            cwd=VERIF,
            env=env,
            capture_output=True,
            text=True,
            timeout=timeout,
        )
    except subprocess.TimeoutExpired:
        return None, "replay timed out"
    out = cp.stdout + cp.stderr
    if cp.returncode == 1:
        return True, out
    if cp.returncode == 0:
        return False, out
    return None, out


# ------------------------------------------------------------------ evidence


def write_evidence(prop, tier, level, coverage, assumptions, wall, violations, extra=None):
    os.makedirs(EVID, exist_ok=True)
    ev = {
        "property_id": prop,
        "tier": tier,
        "seed": seed(),
        "level": level,
        "coverage": coverage,
        "assumptions": assumptions,
        "wall_s": round(wall, 2),
        "violations": violations,
    }
    if extra:
        ev.update(extra)
    p = os.path.join(EVID, f"{prop}.json")
    tmp = p + ".tmp"
    with open(tmp, "w") as f:
        json.dump(ev, f, indent=1, default=str)
    os.replace(tmp, p)
    return p


class Report:
    """Collects violations / known findings / harness errors and turns them into the exit code."""

    def __init__(self, prop):
        self.prop = prop
        self.open_known, self.fixed = load_known(prop)
        self.violations = []  # (key, replay_path, summary)
        self.known_hits = {}  # finding id -> [keys]
        self.harness_errors = []
        self.unreproduced = []
        self.nreplay = 0

    def counterexample(self, key, payload, summary):
        """Replay, classify and record one counterexample."""
        f = match_known(self.open_known, key)
        self.nreplay += 1
        path = write_replay(self.prop, self.nreplay, payload)
        ok, out = run_replay(path)
        if ok is None:
            self.harness_errors.append(f"replay failed for {key}: {out[-400:]}")
            return
        if not ok:
            self.unreproduced.append((key, path, out[-300:]))
            return
        if f is not None:
            self.known_hits.setdefault(f["id"], []).append(key)
            return
        self.violations.append((key, path, summary))

    def counterexamples(self, items):
        """Replay many counterexamples concurrently (each in its own clean interpreter), then classify them in order."""
        from concurrent.futures import ThreadPoolExecutor

        paths = []
        for key, payload, summary in items:
            self.nreplay += 1
            paths.append(write_replay(self.prop, self.nreplay, payload))
        with ThreadPoolExecutor(ncpu()) as ex:
            outs = list(ex.map(run_replay, paths))
        for (key, payload, summary), path, (ok, out) in zip(items, paths, outs):
            f = match_known(self.open_known, key)
            if ok is None:
                self.harness_errors.append(f"replay failed for {key}: {out[-400:]}")
            elif not ok:
                self.unreproduced.append((key, path, out[-300:]))
            elif f is not None:
                self.known_hits.setdefault(f["id"], []).append(key)
            else:
                self.violations.append((key, path, summary))

    def finish(self, extra_lines=()):
        for fid, keys in sorted(self.known_hits.items()):
            f = next(x for x in self.open_known if x["id"] == fid)
            print(f"KNOWN-FINDING: property={self.prop} {fid}: {f['what']} ({len(keys)} counterexample classes, e.g. {keys[0]})")
        for line in extra_lines:
            print(line)
        for key, path, summary in self.unreproduced:
            print(f"HARNESS: counterexample for {key} did not reproduce against the real code ({path}): {summary}")
        for e in self.harness_errors:
            print(f"HARNESS: {e}")
        for key, path, summary in self.violations:
            print(f"  violation class {key}: {summary}")
        if self.violations:
            key, path, summary = self.violations[0]
            print(f"VIOLATION property={self.prop} replay={path}")
            return EXIT_VIOLATION
        if self.unreproduced or self.harness_errors:
            return EXIT_HARNESS
        return EXIT_OK
