"""C10: shared evaluation of one program skeleton, used symbolically (checks/layout_check.py, under pysym, numerals are
magic literals standing for z3 terms) and concretely (checks/replay_layout.py, clean interpreter, real numerals).

A skeleton is a list of statements ``(label or None, kind, label-operand or None)``; ``kind`` indexes TEMPLATES.  The function
returns a list of (obligation name, condition) where the condition is whatever the comparison operators of the values give
(bool concretely, SymBool symbolically) - it never branches on a condition itself.
"""
from __future__ import annotations

# kind -> (source template, numeral widths, reference kind)
#   {0},{1}: numerals; {L}: the label operand.  reference kind: how a label operand is encoded.
TEMPLATES = {
    "nop": ("NOP", (), None),
    "mva": ("MV A, {0}", (8,), None),
    "mvx": ("MV X, {0}", (20,), None),
    "mvw": ("MVW (BP+{0}), {1}", (8, 16), None),
    "pushu": ("PUSHU BA", (), None),
    "jp": ("JP {L}", (), "near"),
    "jpz": ("JPZ {L}", (), "near"),
    "call": ("CALL {L}", (), "near"),
    "jpf": ("JPF {L}", (), "far"),
    "callf": ("CALLF {L}", (), "far"),
    "mvxl": ("MV X, {L}", (), "far"),
    "mvdl": ("MV A, [X+{L}]", (), "disp8"),  # a label as an 8-bit displacement (label addresses below 0x100 in these skeletons)
    "mvdn": ("MV A, [X+{0}]", (8,), None),
    "defb2": ("defb {0}, {1}", (16, 8), None),
    "defw": ("defw {0}", (20,), None),
    "defl": ("defl {0}, {1}", (24, 24), None),
    "defwl": ("defw {L}", (), "data16"),
    "defll": ("defl {L}", (), "data24"),
    "defs0": ("defs 0", (), None),
    "defs1": ("defs 1", (), None),
    "defs3": ("defs 3", (), None),
    "defm": ('defm "ABC"', (), None),
    "defme": ('defm "A\\nB"', (), None),  # a backslash escape is kept verbatim by the grammar: 4 bytes A \\ n B
    "org": (".ORG {0}", (20,), None),
    "secd": ("SECTION data", (), None),
    "secc": ("SECTION code", (), None),
    "label": ("", (), None),  # a line that carries only a label
}
LOCATION = {"org", "secd", "secc", "label"}
BASES = {"code": 0x00000, "data": 0x80000}


class AsmFailure(Exception):
    pass


def build_source(skel, numeral):
    """-> (source text, per-statement numeral values, statement line numbers).  ``numeral(name, bits)`` returns (text, value)."""
    lines, vals = [], []
    for i, (label, kind, lop) in enumerate(skel):
        tmpl, widths, _ = TEMPLATES[kind]
        nv = [numeral(f"n{i}_{j}", w) for j, w in enumerate(widths)]
        text = tmpl.format(*[t for t, _ in nv], L=lop or "")
        lines.append((f"{label}: " if label else "") + text)
        vals.append([v for _, v in nv])
    return "\n".join(lines) + "\n", vals


def expected_data(kind, vals):
    """Bytes a data directive must emit (documented meaning of defb/defw/defl/defs/defm)."""
    if kind == "defb2":
        return [vals[0] & 0xFF, vals[1] & 0xFF]
    if kind == "defw":
        return [vals[0] & 0xFF, (vals[0] >> 8) & 0xFF]
    if kind == "defl":
        out = []
        for v in vals:
            out += [v & 0xFF, (v >> 8) & 0xFF, (v >> 16) & 0xFF]
        return out
    if kind == "defs0":
        return []
    if kind == "defs1":
        return [0]
    if kind == "defs3":
        return [0, 0, 0]
    if kind == "defm":
        return [0x41, 0x42, 0x43]
    if kind == "defme":
        return [0x41, 0x5C, 0x6E, 0x42]
    return None


def evaluate(skel, numeral, make_assembler, K, alone):
    """Run the skeleton through the real two-pass assembler and return the obligations.

    make_assembler() -> an Assembler whose _get_statement_size/_encode_statement record into .rec1/.rec2 and whose
    BinFile records chunks.  K: comparison kit (eq, ne, and_, true, false).  alone(addr, text) -> bytes of the one-line
    program ``.ORG addr / text`` (or raises AsmFailure).
    """
    src, vals = build_source(skel, numeral)
    obl = []
    a = make_assembler()
    err = None
    try:
        chunks = a.assemble(src).chunks
    except Exception as e:  # noqa: BLE001 - AssemblerError from the real code
        if type(e).__name__ != "AssemblerError":
            raise
        err = e
        chunks = list(a.last_binfile().chunks)
    # the n-th recorded call belongs to the n-th statement that is neither a location directive nor a bare label
    # (the parser's own line numbers are not used: a label-only line is merged with the following statement)
    stmts = [i for i, (_, kind, _) in enumerate(skel) if kind not in LOCATION]
    size1 = {i + 1: r for i, (_, r) in zip(stmts, a.rec1)}
    enc2 = {i + 1: b for i, (_, b) in zip(stmts, a.rec2)}
    # ---- reference layout from the pass-1 sizes
    ptr = dict(BASES)
    sec = "code"
    addr, labels = {}, {}
    for i, (label, kind, lop) in enumerate(skel):
        ln = i + 1
        if kind == "secd":
            sec = "data"
        elif kind == "secc":
            sec = "code"
        elif kind == "org":
            ptr[sec] = vals[i][0]
        addr[i] = ptr[sec]
        if label:
            labels[label] = ptr[sec]
        if kind not in LOCATION:
            if ln not in size1:
                obl.append((f"pass1-skipped-statement:{kind}", K.false))
                return src, obl, err
            ptr[sec] = ptr[sec] + size1[ln]
    # ---- labels: the symbol table holds the address implied by the preceding statements
    for name, want in labels.items():
        got = a.symbols.get(name.upper())
        if got is None:
            obl.append((f"label-missing:{name}", K.false))
        else:
            obl.append(("label-address", K.eq(got, want)))
    # ---- page-local references: rejected iff the definition is on another 64 KiB page
    failing_line = None
    if err is not None:
        # pass 2 stopped at the first statement without recorded bytes
        done = len(a.rec2)
        failing_line = (stmts[done] + 1) if done < len(stmts) else None
        i = (failing_line or 0) - 1
        if not (0 <= i < len(skel)) or TEMPLATES[skel[i][1]][2] != "near" or "is not on current page" not in str(err):
            obl.append((f"unexpected-assembler-error:{skel[i][1] if 0 <= i < len(skel) else '?'}", K.false))
            return src, obl, err
        obl.append(("near-reference-rejected-only-across-pages", K.ne(labels[skel[i][2]] >> 16, addr[i] >> 16)))
    # ---- per statement: sizes, placement, contents
    ci = 0
    for i, (label, kind, lop) in enumerate(skel):
        ln = i + 1
        if failing_line is not None and ln >= failing_line:
            break
        if kind in LOCATION:
            continue
        if ln not in enc2:
            obl.append((f"pass2-skipped-statement:{kind}", K.false))
            continue
        b = enc2[ln]
        obl.append((f"pass1-size-equals-pass2-bytes:{kind}", K.true if size1[ln] == len(b) else K.false))
        if len(b) > 0:
            if ci >= len(chunks):
                obl.append((f"bytes-not-placed:{kind}", K.false))
                continue
            caddr, cbytes = chunks[ci]
            ci += 1
            obl.append((f"placed-at-implied-address:{kind}", K.eq(caddr, addr[i])))
            if len(cbytes) != len(b):
                obl.append((f"placed-bytes-differ:{kind}", K.false))
            else:
                obl.append((f"placed-bytes-differ:{kind}", K.and_([K.eq(x, y) for x, y in zip(cbytes, b)])))
        want = expected_data(kind, vals[i])
        ref = TEMPLATES[kind][2]
        if want is not None:
            obl.append((f"data-bytes:{kind}", K.and_([K.eq(x, y) for x, y in zip(b, want)]) if len(b) == len(want) else K.false))
        elif ref in ("data16", "data24"):
            lv = labels[lop]
            n = 2 if ref == "data16" else 3
            obl.append((f"label-reference-encodes-definition:{kind}", K.and_([K.eq(b[j], (lv >> (8 * j)) & 0xFF) for j in range(n)]) if len(b) == n else K.false))
        else:
            # an instruction: its bytes are what assembling it alone at that address gives (symbols replaced by values)
            if ref is None:
                text1 = TEMPLATES[kind][0].format(*[numeral(f"a{i}_{j}", w, v)[0] for j, (w, v) in enumerate(zip(TEMPLATES[kind][1], vals[i]))])
            else:
                lv = labels[lop]
                text1 = TEMPLATES[kind][0].format(L=numeral(f"a{i}_L", 24, lv)[0])
                if ref == "disp8":
                    obl.append((f"label-reference-encodes-definition:{kind}", K.eq(b[-1], lv & 0xFF) if len(b) >= 1 else K.false))
                elif ref == "near":
                    obl.append((f"near-reference-accepted-only-within-page:{kind}", K.eq(lv >> 16, addr[i] >> 16)))
                    obl.append((f"label-reference-encodes-definition:{kind}", K.and_([K.eq(b[1], lv & 0xFF), K.eq(b[2], (lv >> 8) & 0xFF)]) if len(b) == 3 else K.false))
                else:
                    obl.append((f"label-reference-encodes-definition:{kind}",
                                K.and_([K.eq(b[-3], lv & 0xFF), K.eq(b[-2], (lv >> 8) & 0xFF), K.eq(b[-1] & 0x0F, (lv >> 16) & 0x0F)]) if len(b) == 4 else K.false))
            try:
                single = alone(numeral(f"a{i}_org", 24, addr[i])[0], text1)
            except AsmFailure as e:
                why = "imm16-range" if ("'H' format requires" in str(e) or "argument out of range" in str(e)) else ("cross-page" if "is not on current page" in str(e) else "other")
                obl.append((f"instruction-alone-rejected:{kind}:{why}", K.false))
                continue
            obl.append((f"instruction-equals-assembled-alone:{kind}", K.and_([K.eq(x, y) for x, y in zip(b, single)]) if len(b) == len(single) else K.false))
    # ---- determinism: same Assembler again, and a fresh one
    if err is None:
        for who, asm2 in (("same-assembler", a), ("fresh-assembler", make_assembler())):
            try:
                again = asm2.assemble(src).chunks
            except Exception as e:  # noqa: BLE001
                if type(e).__name__ != "AssemblerError":
                    raise
                obl.append((f"second-run-rejected:{who}", K.false))
                continue
            if len(again) != len(chunks) or any(len(x[1]) != len(y[1]) for x, y in zip(again, chunks)):
                obl.append((f"second-run-differs:{who}", K.false))
            else:
                conds = []
                for (a1, b1), (a2, b2) in zip(again, chunks):
                    conds.append(K.eq(a1, a2))
                    conds += [K.eq(x, y) for x, y in zip(b1, b2)]
                obl.append((f"second-run-differs:{who}", K.and_(conds)))
    return src, obl, err
