"""Registry of claimed checks -> MANIFEST.json (via tools_manifest.py) and the ./check dispatcher."""

_PY_NOTE = ("Trusted base: z3 5.1.0; the pysym proxy engine (engines/pysym: 64-bit bit-vector model of Python ints with interval "
            "overflow guards, import-hook AST rewrite of pure conditional expressions, struct/bytearray shims); binja_test_mocks as the "
            "Binary Ninja API. Every counterexample is replayed concretely against the unmodified code before it is reported.")
_RS_NOTE = ("Trusted base: z3 5.1.0; the rsym engine (engines/rsym: reader + symbolic interpreter for the LLVM IR rustc 1.95 emits for the real sc62015-core crate, "
            "release profile, opt-level 1, fat LTO incl. the parts of std it uses; libc stubs listed in the evidence); the pysym engine for the Python side; "
            "every counterexample is replayed concretely: unmodified Python core vs the natively compiled Rust harness.")

CHECKS = [
    {
        "id": "C01", "engine": "pysym", "level": "exploration", "design_ref": "DESIGN.md section 4 / C01",
        "technique": "symbolic execution of the real decoder and arch hooks over symbolic byte strings (z3 bit-vectors), one run per (prefix, opcode, length, tail) class; z3 decides each obligation",
        "level_text": "Bounded symbolic exploration: for every (prefix bytes, opcode, buffer length) class all remaining bytes and the address are z3 variables; the real decode()/fusion()/arch hooks/emulator fetch run on them and z3 decides acceptance agreement, length bounds, trailing-byte and history independence and absence of unexpected exceptions for all values at once. Not a proof: tails are bounded (first tail byte from a set), history depth is 1.",
        "level_note": _PY_NOTE,
    },
    {
        "id": "C02", "engine": "pysym", "level": "translation_validation", "design_ref": "DESIGN.md section 4 / C02",
        "technique": "symbolic round trip encode(decode(b)) == b decided by z3 over symbolic operand bytes per encoding class, plus re-decode text/IL equality",
        "level_text": "Per encoding class the byte string is symbolic; the real decode and encode run on it and z3 decides byte-wise equality of the re-encoded string (all don't-care bits included), equality of re-decoded text, length and lifted IL, and that the text hook never demotes an accepted instruction.",
        "level_note": _PY_NOTE,
    },
    {
        "id": "C03", "engine": "pysym", "level": "translation_validation", "design_ref": "DESIGN.md section 4 / C03",
        "technique": "symbolic execution of Emulator.execute_instruction with symbolic registers/memory (z3 arrays); read/write sets compared by z3 with the addressing rules applied to the rendered tokens",
        "level_text": "For every (prefix, opcode, length) class the real emulator executes the lifted IL on fully symbolic state; the observed reads, writes and pointer-register deltas are compared (set equality decided by z3) with those the documented addressing rules assign to the rendered operand tokens.",
        "level_note": _PY_NOTE + " Oracle: specs/operands.py + specs/isa.py (README addressing rules).",
    },
    {
        "id": "C04", "engine": "pysym", "level": "translation_validation", "design_ref": "DESIGN.md section 4 / C04",
        "technique": "symbolic execution of the real lifter+LLIL evaluator per encoding class; post-state compared by z3 with a z3py transcription of the README instruction tables (incl. frame condition over an arbitrary address)",
        "level_text": "For every (prefix, opcode, length) class the real emulator runs on fully symbolic operands, registers, flags and memory; z3 decides equality with the documented result, C/Z, pointer/counter/stack effects and the frame condition (every other register, every other memory byte) for all values at full width. Bounded: I <= 2 (quick) / 3 (thorough), next instruction is NOP, documented forms only.",
        "level_note": _PY_NOTE + " Oracle: specs/isa.py written from sc62015/pysc62015/README.md; reading notes are marked NOTE in that file.",
    },
]

NOT_APPLICABLE = [
    {"property_id": "C16", "reason": "snapshot save/load crosses zipfile/json/file I/O (Python) and a feature whose zip dependency is absent (Rust); not encodable, see DESIGN.md C16"},
]
_PENDING = "check not built yet in this round (work in progress; see DESIGN.md section 6 for the order of work)"
_claimed = {c["id"] for c in CHECKS} | {n["property_id"] for n in NOT_APPLICABLE}
NOT_APPLICABLE += [{"property_id": f"C{i:02d}", "reason": _PENDING} for i in range(1, 19) if f"C{i:02d}" not in _claimed]
NOT_APPLICABLE.sort(key=lambda d: d["property_id"])

RUNNERS = {
    "C01": ("decode_check", "main", ("C01",)),
    "C02": ("decode_check", "main", ("C02",)),
    "C03": ("isa_check", "main", ("C03",)),
    "C04": ("isa_check", "main", ("C04",)),
}
RUNNERS["C08"] = ("regfile_check", "main", ())
RUNNERS["C05"] = ("branch_check", "main", ())
CHECKS.append({
    "id": "C05", "engine": "pysym", "level": "translation_validation", "design_ref": "DESIGN.md section 4 / C05",
    "technique": "symbolic execution at a symbolic 20-bit address: z3 compares InstructionInfo branch targets with the PC the real emulator reaches; call/return pairs as 2-instruction symbolic runs",
    "level_text": "For every (prefix, opcode, length) class the address, operand bytes, flags, registers and memory are symbolic; z3 decides that the PC reached equals the reported target for the taken/not-taken outcome (or addr+len when no branch is reported), for all addresses incl. page boundaries. CALL;RET, CALLF;RETF and IR;RETI are run as two-instruction symbolic programs and z3 decides PC/S/C,Z/IMR restoration.",
    "level_note": _PY_NOTE,
})
CHECKS.append({
    "id": "C08", "engine": "pysym+rsym", "level": "other", "design_ref": "DESIGN.md section 4 / C08",
    "technique": "inductive step decided by z3: one/two symbolic writes by name from an arbitrary symbolic register-file state through the real Registers/CPURegistersSnapshot, all reads compared with a z3 alias/width spec",
    "level_text": "z3 decides, for all 32-bit written values and all prior register-file states satisfying the representation invariant, that every read returns the specified alias/width/flag value, that the invariant is re-established (so the step extends to write sequences of any length) and that a snapshot applied to a fresh file reproduces every read. Both register files: the Python one by pysym, the Rust LlamaState (set_reg/get_reg/mask_for, all ordered pairs of writes) from the crate's LLVM IR by rsym, compared with the spec and with each other.",
    "level_note": _PY_NOTE + " " + _RS_NOTE,
})
_claimed = {c["id"] for c in CHECKS} | {"C16"}
NOT_APPLICABLE[:] = [n for n in NOT_APPLICABLE if n["property_id"] not in {c["id"] for c in CHECKS}]
RUNNERS["C07"] = ("history_check", "main", ())
RUNNERS["C13"] = ("timer_check", "main", ())
RUNNERS["C15"] = ("lcd_check", "main", ())
CHECKS.append({
    "id": "C07", "engine": "pysym", "level": "exploration", "design_ref": "DESIGN.md section 4 / C07",
    "technique": "2-run non-interference decided by z3: every instruction class executed with TEMP registers, call bookkeeping and trace PCs as fresh symbolic variables; self-composition by substitution; plus process-history, re-execution and stepper-vs-in-place equalities",
    "level_text": "Every (prefix, opcode, length) class of the Python core is executed symbolically with all hidden state (TEMP0-13, call_sub_level, _last_pc/_current_pc) as free variables; z3 decides that no two hidden-state valuations give different architectural post-states (or the variables are shown not to occur at all). Decoder templates / caches are covered by executing Y after an unrelated X in the same process and by re-executing at the same address after the operand bytes changed; CPUStepper.step is compared with in-place execution. Python core; the Rust core's hidden state is exercised through C06 (both cores from the same symbolic architectural state).",
    "level_note": _PY_NOTE,
})
CHECKS.append({
    "id": "C13", "engine": "pysym+rsym", "level": "other", "design_ref": "DESIGN.md section 4 / C13",
    "technique": "inductive step decided by z3: one symbolic TimerScheduler.advance/reset call from an arbitrary symbolic scheduler state (periods, targets, cycle counter), catch-up loop unwound K times under an unwinding assumption",
    "level_text": "z3 decides for all periods, targets and cycle values within the bounds that a timer fires iff enabled, period>0 and due; that the next target is strictly in the future, at most one period ahead and phase-preserving (so per-cycle ticking fires exactly once per boundary); disabled/zero-period timers never fire. Python TimerScheduler by pysym and Rust TimerContext (tick_timers/reset, 24-bit symbolic cycle values zero-extended to u64) from LLVM IR by rsym, including agreement of the two.",
    "level_note": _PY_NOTE + " " + _RS_NOTE,
})
CHECKS.append({
    "id": "C15", "engine": "pysym+rsym", "level": "other", "design_ref": "DESIGN.md section 4 / C15",
    "technique": "inductive step decided by z3: one symbolic read/write through the real HD61202Controller from an arbitrary two-chip state (VRAM as z3 arrays) compared with a z3 protocol spec; all 7680 display pixels compared with their VRAM bit over fully symbolic VRAM",
    "level_text": "z3 decides, for all addresses (both windows, every low-nibble decoding, addresses outside) and values, that chip state, VRAM and returned status/data equal the HD61202 protocol spec after one operation from an arbitrary state (plus fixed-shape 3-operation sequences for busy/read latency), and that each of the 240x32 pixels of get_display_buffer equals NOT(one VRAM bit) AND chip-on, the map being injective and column-local. Python HD61202Controller by pysym and Rust LcdController (write/read/display_buffer) from LLVM IR by rsym: arbitrary chip state driven through the protocol, VRAM as symbolic arrays, post-state read back from the controller object. PIL image rendering (render_combined_image) crosses a C boundary and is outside.",
    "level_note": _PY_NOTE + " " + _RS_NOTE,
})
NOT_APPLICABLE[:] = [n for n in NOT_APPLICABLE if n["property_id"] not in {c["id"] for c in CHECKS}]
RUNNERS["C14"] = ("keyboard_check", "main", ())
RUNNERS["C11"] = ("membus_check", "main", ())
CHECKS.append({
    "id": "C11", "engine": "pysym+rsym", "level": "other", "design_ref": "DESIGN.md section 4 / C11",
    "technique": "inductive step decided by z3: one symbolic store + load through the real PCE500Memory/MemoryBus at symbolic 32-bit addresses from an arbitrary backing store (z3 arrays), per memory configuration",
    "level_text": "For each memory configuration (no ROM, full/short ROM image, card absent/8K/read-only, RAM overlay) z3 decides for all 32-bit addresses and values that a load after a store returns the stored byte iff both addresses denote the same writable canonical cell and the previous value otherwise, that internal and external cells never influence each other, that read-only cells never change and that multi-byte accesses are little-endian compositions. Python PCE500Memory by pysym and Rust MemoryImage (store/load under 7 configurations incl. the PC-E500 read-only map, RAM mirror, card, overlays) from LLVM IR by rsym.",
    "level_note": _PY_NOTE + " " + _RS_NOTE,
})
CHECKS.append({
    "id": "C14", "engine": "pysym+rsym", "level": "other", "design_ref": "DESIGN.md section 4 / C14",
    "technique": "step relations decided by z3: one symbolic KeyboardMatrix operation (scan tick, strobe write, key-input read, press/release, FIFO enqueue) from an arbitrary state of two symbolic keys / an arbitrary ring-buffer state",
    "level_text": "z3 decides from arbitrary key states (flags, tick counters, thresholds, strobe bits symbolic; both column polarities; KOL and KOH columns) that the key-input register shows exactly the debounced keys on strobed columns, that each key follows the debounce/repeat/release automaton with press only on entering and release only on leaving the debounced state, that idle keys emit nothing and that the event ring never exceeds 7 entries, drops only its oldest entry and keeps order. Python KeyboardMatrix by pysym and Rust KeyboardMatrix (scan_tick, handle_read/write, press/release, inject, write_fifo_to_memory incl. KEYI gating) from LLVM IR by rsym; KIL reads in Rust are held to the property's two bounds (never shown without a held/recently released key, always shown for a debounced held key).",
    "level_note": _PY_NOTE + " " + _RS_NOTE,
})
NOT_APPLICABLE[:] = [n for n in NOT_APPLICABLE if n["property_id"] not in {c["id"] for c in CHECKS}]
RUNNERS["C06"] = ("parity_check", "main", ())
CHECKS.append({
    "id": "C06", "engine": "pysym+rsym", "level": "translation_validation", "design_ref": "DESIGN.md section 4 / C06",
    "technique": "translation validation per encoding class: Python core executed by proxy objects and Rust core executed from its LLVM IR on the same z3 variables (registers, flags, operand bytes, one shared memory array); z3 decides equality of registers, C/Z, PC, low-power state, consumed length and whole-memory extensionality for every pair of compatible paths",
    "level_text": "For every (prefix, opcode, length) class the real Emulator.execute_instruction (Python) and the real LlamaExecutor::execute (Rust, from rustc's LLVM IR) run on shared symbolic state; each Python path is paired with the Rust paths explored under its path condition and z3 decides equality of BA,I,X,Y,U,S,PC,C,Z, halted/off, returned length and memory (a fresh symbolic address). Bounded: valid encodings, I<=2/3, the documented operand domain of C04 (quick) plus the full domain in the thorough tier.",
    "level_note": _RS_NOTE,
})
NOT_APPLICABLE[:] = [n for n in NOT_APPLICABLE if n["property_id"] not in {c["id"] for c in CHECKS}]
RUNNERS["C17"] = ("tables_check", "main", ())
CHECKS.append({
    "id": "C17", "engine": "rsym", "level": "other", "design_ref": "DESIGN.md section 4 / C17",
    "technique": "the Rust static opcode table read through the crate's LLVM IR with a symbolic opcode index (rsym) and compared by z3, field by field for all 256 entries, with the entry derived from the Python table; register widths / IMEM offsets / address-space constants compared over symbolic indices; view segments decided disjoint and in range over an arbitrary 32-bit address",
    "level_text": "Finite data compared completely: z3 decides for all 256 opcode values that kind, name, condition, operand order, operand count and every operand's shape/width/register of the Rust OPCODES entry equal the Python opcode_table entry (mapping of scripts/generate_llama_opcodes.py, with EMemIMem data widths taken from the table itself); that arch.py, decoder, emulator and Rust mask_for agree on every register width and sub-register layout; that Python IMEMRegisters and the crate's IMEM_* constants, address-space constants and reset vector agree; and that each Binary Ninja view's segments are pairwise disjoint, inside the address space and place internal RAM at INTERNAL_MEMORY_START. Private Rust constants are compared behaviourally by C06.",
    "level_note": _RS_NOTE,
})
NOT_APPLICABLE[:] = [n for n in NOT_APPLICABLE if n["property_id"] not in {c["id"] for c in CHECKS}]
RUNNERS["C12"] = ("irq_check", "main", ())
CHECKS.append({
    "id": "C12", "engine": "pysym+rsym", "level": "other", "design_ref": "DESIGN.md section 9 / C12",
    "technique": "inductive step decided by z3: one CoreRuntime::step of the real Rust runtime (LLVM IR, rsym) and one PCE500Emulator.step of the real Python machine (pysym) from an arbitrary interrupt-controller state (IMR, ISR, pending / in-interrupt / key-latch flags, power state, F, stack contents, vector, timer targets symbolic) for a set of programs at PC (NOP, RETI, HALT, OFF, writes to IMR/ISR), compared with the interrupt rules of the property statement",
    "level_text": "Both machines, one step each. z3 decides for all controller states that an interrupt is taken only with the master enable and an unmasked pending source and never while powered off; that taking it pushes exactly IMR, F and the resume PC, clears only the master enable, continues at the vector and marks the handler; that an unmasked pending request is taken in the very next step; that nothing is pushed otherwise; that a halted / powered-off CPU executes nothing and leaves that state exactly when a status bit is pending; that a powered-off CPU does not advance the timers; and that RETI restores IMR, F, PC and S. The Python machine (pce500.emulator.PCE500Emulator.step, real method via pysym) is held to the same obligations from the same arbitrary state (vector and RETI return address fixed, see the evidence bounds); the instruction-level half (IR;RETI) is C05.",
    "level_note": _PY_NOTE + " " + _RS_NOTE,
})
NOT_APPLICABLE[:] = [n for n in NOT_APPLICABLE if n["property_id"] not in {c["id"] for c in CHECKS}]
RUNNERS["C18"] = ("sched_check", "main", ())
CHECKS.append({
    "id": "C18", "engine": "rsym", "level": "other", "design_ref": "DESIGN.md section 9 / C18",
    "technique": "symbolic execution of the real AsyncDriver (spawn / run_for, CycleSleep, emit_event; LLVM IR via rsym) with real async tasks whose sleep durations and run_for budgets are z3 variables; finite case split over task shapes and call counts; two runs of the same tasks under different budget sequences; z3 decides the scheduler obligations on every path",
    "level_text": "First half of the property only (the scheduler itself). z3 decides for all 6-bit sleep durations (0 included) and budgets, for 1-3 tasks with up to 3 sleeps and 2-4 run_for calls, that every task is resumed exactly at the sum of its sleeps, once and in program order, that virtual time never moves backwards, that run_for accounts its cycles, stays inside its budget and leaves no due task sleeping when it reports MaxCycles, that events come back exactly once in emission order, and that wake order and cycles do not depend on the budget partition (common prefix of two runs). Not covered: driving the CPU through the scheduler (async_cpu / async_runtime / async_devices) versus the synchronous step loop.",
    "level_note": _RS_NOTE,
})
NOT_APPLICABLE[:] = [n for n in NOT_APPLICABLE if n["property_id"] not in {c["id"] for c in CHECKS}]
RUNNERS["C09"] = ("asm_check", "main", ())
CHECKS.append({
    "id": "C09", "engine": "pysym", "level": "translation_validation", "design_ref": "DESIGN.md section 9.8 / C09",
    "technique": "symbolic round trip bytes -> real decode/render -> assembler source with magic numerals standing for z3 terms -> real lark parser + AsmTransformer + two-pass Assembler -> emitted bytes as terms -> real decode; z3 decides text / length / IL equality and the second-round fixpoint for all operand values of each (prefix, opcode, length) class",
    "level_text": "Per encoding class the operand bytes are z3 variables. The real decoder renders the instruction; its text is turned into assembler source in which every number that is a term is written as a magic hexadecimal numeral (the text stays concrete, so the real grammar and tree transformer run unchanged; the rebound int() of the instrumented asm/sc_asm modules maps the numeral back to its term). The real Assembler.assemble emits bytes that are terms over the original operand bytes; z3 decides for all operand values that assembly succeeds, that the decoder consumes exactly the emitted bytes, that they render to the same text and (when the length is unchanged) lift to the same IL, and that a second disassemble/assemble round reproduces them. Bounded: one instruction per source text (control-flow opcodes also behind an .ORG on a high page), quick = no prefix + 4 PRE bytes, thorough = all 15; at most 0/1 named-register operand bytes per multi-byte operand field. The many assembler/decoder disagreements of the unchanged tree are listed key by key as known findings F24-F28.",
    "level_note": _PY_NOTE + " bincopy.BinFile is replaced by a recorder of (address, bytes) chunks.",
})
NOT_APPLICABLE[:] = [n for n in NOT_APPLICABLE if n["property_id"] not in {c["id"] for c in CHECKS}]
RUNNERS["C10"] = ("layout_check", "main", ())
CHECKS.append({
    "id": "C10", "engine": "pysym", "level": "translation_validation", "design_ref": "DESIGN.md section 9.8 / C10",
    "technique": "symbolic execution of the real parser + two-pass Assembler on program skeletons whose numerals (.ORG targets, immediates, data values) are magic numerals standing for z3 terms; z3 decides pass-1 size == pass-2 bytes, placement, label values, page-local reference acceptance, equality with the instruction assembled alone, and run-to-run equality for all numeral values",
    "level_text": "For each program skeleton (2-6 statements: instructions with and without label operands, forward and backward references, .ORG, SECTION code/data, defb/defw/defl/defs/defm, label-only lines) every numeral is a z3 variable. The real Assembler.assemble runs on the text (instrumented from outside to record per-statement pass-1 sizes, pass-2 bytes and emitted chunks); z3 decides for all numeral values - hence all placements relative to 64 KiB page edges - that each statement's pass-1 size equals its emitted length, that chunks land at section base/.ORG plus the preceding sizes, that the symbol table holds those addresses, that each label reference encodes its definition (16/20/24 bits), that a page-local JP/JPZ/CALL is rejected exactly when the definition is on another page, that each instruction equals what assembling it alone at that address with the symbol replaced by its value gives, and that a second run on the same and on a fresh Assembler emits the same chunks with the module-level reverse-opcode cache unchanged. Bounded by the skeleton list (structure enumerated, values symbolic).",
    "level_note": _PY_NOTE + " bincopy.BinFile is replaced by a recorder of (address, bytes) chunks.",
})
NOT_APPLICABLE[:] = [n for n in NOT_APPLICABLE if n["property_id"] not in {c["id"] for c in CHECKS}]
