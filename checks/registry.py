"""Registry of claimed checks -> MANIFEST.json (via tools_manifest.py)."""
CHECKS = []

_PENDING = "check not built yet in this round (work in progress; see DESIGN.md section 6 for the order of work)"
NOT_APPLICABLE = [
    {"property_id": f"C{i:02d}", "reason": _PENDING} for i in range(1, 19) if i != 16
] + [
    {"property_id": "C16", "reason": "snapshot save/load crosses zipfile/json/file I/O (Python) and a feature whose zip dependency is absent (Rust); not encodable, see DESIGN.md C16"},
]
NOT_APPLICABLE.sort(key=lambda d: d["property_id"])
