"""C14 (Python matrix model): key-input register, debounce/repeat automaton, event FIFO.

One operation of the real ``KeyboardMatrix`` from an arbitrary state of two chosen keys
(pressed/debounced flags and the three tick counters symbolic), symbolic strobe bits on the
columns of those keys, symbolic thresholds; all other keys idle.  z3 decides the kbd_spec
obligations (this file).  Induction over operation sequences: the obligations are step
relations from an arbitrary state.
"""
from __future__ import annotations

import sys
import time

import z3

from . import common
from . import isa_exec as X
from engines.pysym import core
from engines.pysym.core import SymInt, SymBool, explore

PAIRS = [("KEY_Q", "KEY_E"), ("KEY_Q", "KEY_TRIANGLE_UP_DOWN"), ("KEY_Q", "KEY_9"), ("KEY_P", "KEY_DIVIDE"), ("KEY_W", "KEY_P")]


def bv(v, n):
    return z3.BitVecVal(v, n)


def _sb(x):
    if isinstance(x, SymBool):
        return x.t
    if isinstance(x, SymInt):
        return x.t != 0
    return z3.BoolVal(bool(x))


def make_matrix(pair, active_high, bg):
    from pce500.keyboard_matrix import KeyboardMatrix, KEY_LOCATIONS

    eng = core.engine()
    m = KeyboardMatrix(columns_active_high=active_high)
    thr = {}
    for name, lo in (("press_threshold", 1), ("release_threshold", 1), ("repeat_delay", 0), ("repeat_interval", 0)):
        v = SymInt.var(name, 6)
        eng.assume(v >= lo)
        setattr(m, name, v)
        thr[name] = z3.ZeroExt(10, z3.BitVec(name, 6))
    keys = {}
    word = bg
    for i, code in enumerate(pair):
        loc = KEY_LOCATIONS[code]
        st = m._key_states[code]
        pressed, deb = SymInt.var(f"pressed{i}", 1), SymInt.var(f"deb{i}", 1)
        st.pressed = pressed != 0
        st.debounced = deb != 0
        st.press_ticks = SymInt.var(f"pt{i}", 8)
        st.release_ticks = SymInt.var(f"rt{i}", 8)
        st.repeat_ticks = SymInt.var(f"rp{i}", 8)
        if st.pressed is True or True:
            pass
        keys[code] = {"col": loc.column, "row": loc.row, "pressed": z3.BitVec(f"pressed{i}", 1) == 1, "deb": z3.BitVec(f"deb{i}", 1) == 1,
                      "pt": z3.ZeroExt(8, z3.BitVec(f"pt{i}", 8)), "rt": z3.ZeroExt(8, z3.BitVec(f"rt{i}", 8)), "rp": z3.ZeroExt(8, z3.BitVec(f"rp{i}", 8)), "code": (loc.column << 3) | loc.row}
    cols = sorted({k["col"] for k in keys.values()})
    sbits = {}
    for c in cols:
        word &= ~(1 << c)
    for c in cols:
        s = SymInt.var(f"strobe{c}", 1)
        sbits[c] = z3.BitVec(f"strobe{c}", 1)
        word = word | (s << c)
    m.kol = word & 0xFF
    m.koh = (word >> 8) & 0x0F
    for k in keys.values():
        bit = sbits[k["col"]]
        k["strobed"] = (bit == 1) if active_high else (bit == 0)
    return m, keys, thr, sbits


def key_spec(k, thr):
    """kbd_spec step for one key on a scan tick -> (deb', pt', rt', rp', press_evt, repeat_evt, release_evt)."""
    act = z3.And(k["pressed"], k["strobed"])
    pt1 = k["pt"] + 1
    reach = z3.UGE(pt1, thr["press_threshold"])
    # not yet debounced, held on a strobed column: counts up, debounces at the threshold
    press_evt = z3.And(act, z3.Not(k["deb"]), reach)
    # debounced and still held: repeat cadence
    rp_dec = z3.If(z3.UGT(k["rp"], bv(0, 16)), k["rp"] - 1, k["rp"])
    rep_on = z3.And(act, k["deb"], z3.UGT(thr["repeat_interval"], bv(0, 16)))
    repeat_evt = z3.And(rep_on, rp_dec == 0)
    # not held (or column not strobed) while debounced: release after the release interval
    rt1 = k["rt"] + 1
    release_evt = z3.And(z3.Not(act), k["deb"], z3.UGE(rt1, thr["release_threshold"]))
    deb2 = z3.If(press_evt, z3.BoolVal(True), z3.If(release_evt, z3.BoolVal(False), k["deb"]))
    pt2 = z3.If(act, z3.If(k["deb"], k["pt"], z3.If(reach, thr["press_threshold"], pt1)), bv(0, 16))
    rt2 = z3.If(act, z3.If(k["deb"], bv(0, 16), z3.If(reach, bv(0, 16), k["rt"])), z3.If(k["deb"], z3.If(release_evt, bv(0, 16), rt1), k["rt"]))
    rp2 = z3.If(press_evt, thr["repeat_delay"], z3.If(rep_on, z3.If(repeat_evt, thr["repeat_interval"], rp_dec), z3.If(release_evt, bv(0, 16), k["rp"])))
    # a key that is neither held nor debounced has no repeat countdown
    rp2 = z3.If(z3.And(z3.Not(k["pressed"]), z3.Not(deb2)), bv(0, 16), rp2)
    return deb2, pt2, rt2, rp2, press_evt, repeat_evt, release_evt


def kil_spec(keys, deb_of):
    v = bv(0, 8)
    for code, k in keys.items():
        v = v | z3.If(z3.And(k["strobed"], deb_of(code, k)), bv(1 << k["row"], 8), bv(0, 8))
    return v


def run_case(item):
    tier, (op, pair, active_high) = item
    X.setup()
    from pce500.keyboard_matrix import KEY_LOCATIONS, MatrixEvent, FIFO_SIZE

    key = f"{op}:{pair[0]}+{pair[1]}:{'high' if active_high else 'low'}"
    res = {"key": key, "paths": 0, "obligations": 0, "discharged": 0, "unknown": 0, "cex": [], "solver_time": 0.0, "samples": [], "inconclusive": []}
    bg = 0x000 if active_high else 0xFFF

    def fn():
        eng = core.engine()
        if op == "enqueue":
            from pce500.keyboard_matrix import KeyboardMatrix

            m = KeyboardMatrix()
            m._fifo = [SymInt.var(f"f{i}", 8) for i in range(FIFO_SIZE)]
            m._head, m._tail = SymInt.var("head", 3), SymInt.var("tail", 3)
            code, rel = SymInt.var("ecode", 8), SymInt.var("erel", 1)
            before = (list(m._fifo), m._head, m._tail)
            m._enqueue_event(MatrixEvent(code=code, release=rel != 0))
            snap = m.fifo_snapshot()
            return {"before": before, "fifo": list(m._fifo), "head": m._head, "tail": m._tail, "snap": snap, "code": code, "rel": rel}
        m, keys, thr, sbits = make_matrix(pair, active_high, bg)
        out = {"keys": keys, "thr": thr}
        if op == "scan_tick":
            events = m.scan_tick()
            out["events"] = [(e.code, bool(e.release), bool(e.repeat)) for e in events]
            out["fifo"] = m.fifo_snapshot()
            out["kil_latch"] = m._kil_latch
        elif op == "read_kil":
            out["kil"] = m.read_kil()
        elif op in ("write_kol", "write_koh"):
            # new strobe value: symbolic on the two key columns, background elsewhere
            word = bg
            nb = {}
            for c in sorted({k["col"] for k in keys.values()}):
                word &= ~(1 << c)
            for c in sorted({k["col"] for k in keys.values()}):
                s = SymInt.var(f"nstrobe{c}", 1)
                nb[c] = z3.BitVec(f"nstrobe{c}", 1)
                word = word | (s << c)
            if op == "write_kol":
                m.write_kol(word & 0xFF)
            else:
                m.write_koh((word >> 8) & 0xFF)
            out["nb"] = nb
            out["kil"] = m.read_kil()
            out["kol"], out["koh"] = m.kol, m.koh
        elif op == "press_release":
            code = pair[0]
            r = m.press_key(code)
            out["press_ret"] = r
            out["after_press"] = _key_terms(m, pair)
            m.release_key(code)
            out["after_release"] = _key_terms(m, pair)
        out["post"] = _key_terms(m, pair)
        return out

    try:
        paths, stats = explore(fn, max_paths=20000, deadline_s=300)
    except core.PathLimit as e:
        res["inconclusive"].append(str(e))
        return res
    res["paths"] = len(paths)
    res["solver_time"] += stats.solver_time
    for p in paths:
        if p.status != "ok":
            if p.status == "inconclusive":
                res["inconclusive"].append(p.detail[:100])
            else:
                res["cex"].append({"key": f"{key}|raises|{type(p.exc).__name__}", "summary": repr(p.exc)[:200], "payload": None})
            continue
        v = p.value
        checks = []
        if op == "enqueue":
            fifo0, h0, t0_ = v["before"]
            h0t, t0t = core.term_of(h0, 3), core.term_of(t0_, 3)
            byte = (core.term_of(v["code"], 8) & 0x7F) | z3.If(core.term_of(v["rel"], 1) == 1, bv(0x80, 8), bv(0, 8))
            full = (t0t + 1) == h0t
            checks.append(("fifo-tail-advances", core.term_of(v["tail"], 3) != t0t + 1))
            checks.append(("fifo-head-moves-only-when-full", core.term_of(v["head"], 3) != z3.If(full, h0t + 1, h0t)))
            cnt0 = z3.ZeroExt(5, t0t - h0t)
            cnt1 = z3.ZeroExt(5, core.term_of(v["tail"], 3) - core.term_of(v["head"], 3))
            checks.append(("fifo-length-bounded", z3.Not(z3.And(z3.ULE(cnt1, bv(FIFO_SIZE - 1, 8)), cnt1 == z3.If(full, cnt0, cnt0 + 1)))))
            # contents: old queue (minus its oldest entry when it was full) followed by the new byte
            snap = v["snap"]
            n1 = len(snap)
            arr0 = z3.K(z3.BitVecSort(3), bv(0, 8))
            for i, b in enumerate(fifo0):
                arr0 = z3.Store(arr0, bv(i, 3), core.term_of(b, 8))
            bad = [core.term_of(snap[-1], 8) != byte] if n1 else [z3.BoolVal(True)]
            for j in range(n1 - 1):
                src = z3.If(full, h0t + 1 + j, h0t + j)
                bad.append(core.term_of(snap[j], 8) != z3.Select(arr0, src))
            checks.append(("fifo-drops-only-oldest-keeps-order", z3.Or(*bad)))
            checks.append(("fifo-snapshot-length", bv(n1, 8) != cnt1))
        else:
            keys, thr = v["keys"], v["thr"]
            post = v["post"]
            if op == "scan_tick":
                ev = v["events"]
                for i, code in enumerate(pair):
                    k = keys[code]
                    d2, pt2, rt2, rp2, pe, re_, rl = key_spec(k, thr)
                    kp = post[code]
                    got_press = any(c == k["code"] and not r and not rp for (c, r, rp) in ev)
                    got_rep = any(c == k["code"] and not r and rp for (c, r, rp) in ev)
                    got_rel = any(c == k["code"] and r for (c, r, rp) in ev)
                    n_evt = sum(1 for (c, r, rp) in ev if c == k["code"])
                    checks += [(f"key{i}:debounced", kp["deb"] != d2), (f"key{i}:press_ticks", kp["pt"] != pt2), (f"key{i}:release_ticks", kp["rt"] != rt2),
                               (f"key{i}:repeat_ticks", kp["rp"] != rp2), (f"key{i}:press-event", z3.BoolVal(got_press) != pe),
                               (f"key{i}:repeat-event", z3.BoolVal(got_rep) != re_), (f"key{i}:release-event", z3.BoolVal(got_rel) != rl),
                               (f"key{i}:at-most-one-event-per-tick", z3.BoolVal(n_evt > 1))]
                others = [e for e in ev if e[0] not in [keys[c]["code"] for c in pair]]
                checks.append(("idle-keys-emit-nothing", z3.BoolVal(bool(others))))
                # the FIFO (empty before) holds exactly the emitted events, in order
                fifo = v["fifo"]
                want = [((c & 0x7F) | (0x80 if r else 0)) for (c, r, rp) in ev]
                checks.append(("fifo-holds-events-in-order", z3.BoolVal([int(x) for x in fifo] != want)))
                checks.append(("kil-latch", core.term_of(v["kil_latch"], 8) != kil_spec(keys, lambda c, k: post[c]["deb"])))
            elif op == "read_kil":
                checks.append(("kil-shows-exactly-debounced-keys-on-strobed-columns", core.term_of(v["kil"], 8) != kil_spec(keys, lambda c, k: k["deb"])))
                for i, code in enumerate(pair):
                    for f in ("deb", "pt", "rt", "rp"):
                        checks.append((f"read-does-not-change-key{i}.{f}", post[code][f] != keys[code][f]))
            elif op in ("write_kol", "write_koh"):
                nb = v["nb"]
                def strobed_after(k):
                    c = k["col"]
                    changed = (c < 8) if op == "write_kol" else (8 <= c < 12)
                    bit = nb[c] if changed else z3.BitVec(f"strobe{c}", 1)
                    return (bit == 1) if active_high else (bit == 0)
                want = bv(0, 8)
                for code, k in keys.items():
                    want = want | z3.If(z3.And(strobed_after(k), k["deb"]), bv(1 << k["row"], 8), bv(0, 8))
                checks.append(("kil-follows-new-strobe", core.term_of(v["kil"], 8) != want))
            elif op == "press_release":
                k0 = keys[pair[0]]
                ap, ar = v["after_press"][pair[0]], v["after_release"][pair[0]]
                checks.append(("press-sets-pressed", z3.Not(ap["pressed"])))
                checks.append(("press-keeps-debounced", ap["deb"] != k0["deb"]))
                checks.append(("release-clears-pressed", ar["pressed"]))
                checks.append(("release-keeps-debounced-until-interval", ar["deb"] != k0["deb"]))
                checks.append(("other-key-untouched", z3.Or(*[v["after_release"][pair[1]][f] != keys[pair[1]][f] for f in ("deb", "pt", "rt", "rp", "pressed")])))
        for name, neg in checks:
            res["obligations"] += 1
            r_, m_, dt = X.solve(p.constraints, [neg], fast=True)
            res["solver_time"] += dt
            if r_ == "unsat":
                res["discharged"] += 1
                if len(res["samples"]) < 1:
                    res["samples"].append({"case": key, "obligation": name, "negated_post_head": neg.sexpr()[:140]})
            elif r_ == "sat":
                model = {str(d): m_[d].as_long() for d in m_.decls() if hasattr(m_[d], "as_long")}
                payload = {"property": "C14", "kind": "keyboard", "key": f"{key}|{name}", "op": op, "pair": list(pair), "active_high": active_high, "bg": bg,
                           "model": model, "obligation": name}
                res["cex"].append({"key": f"{op}|{'high' if active_high else 'low'}|{name}", "summary": f"{key}: {name}", "payload": payload})
            else:
                res["unknown"] += 1
    return res


def _key_terms(m, pair):
    out = {}
    for code in pair:
        st = m._key_states[code]
        out[code] = {"pressed": _sb(st.pressed), "deb": _sb(st.debounced), "pt": core.term_of(st.press_ticks, 16), "rt": core.term_of(st.release_ticks, 16),
                     "rp": core.term_of(st.repeat_ticks, 16)}
    return out


def main(tier):
    t0 = time.time()
    X.setup()
    rep = common.Report("C14")
    pairs = PAIRS[:3] + PAIRS[3:4] if tier == "quick" else PAIRS
    cases = [("enqueue", ("-", "-"), True)]
    for pr in pairs:
        for ah in (True, False):
            for op in ("scan_tick", "read_kil", "write_kol", "write_koh", "press_release"):
                if tier == "quick" and op in ("write_kol", "write_koh", "press_release") and pr != pairs[0] and pr != pairs[-1]:
                    continue
                cases.append((op, pr, ah))
    from engines.rsym import build

    build.ensure_built()
    build.image()
    rs_cases = []
    rs_pairs = [PAIRS[0], PAIRS[3]] if tier == "quick" else PAIRS
    for pr in rs_pairs:
        for ah in (True, False):
            for op in RS_OPS:
                if tier == "quick" and pr != PAIRS[0] and (op not in ("read_kil", "write_koh", "scan_tick") or (op == "scan_tick" and not ah)):
                    continue
                rs_cases.append((op, pr, ah))
    # heavy cases first
    rs_cases.sort(key=lambda c: 0 if c[0] == "scan_tick" else (1 if c[0] in ("read_kil", "injectx") else 2))
    results = common.pool_map(run_rust_case, [(tier, c) for c in rs_cases]) + common.pool_map(run_case, [(tier, c) for c in cases])
    cases = cases + [("rust:" + c[0], c[1], c[2]) for c in rs_cases]
    tot = {k: 0 for k in ("paths", "obligations", "discharged", "unknown")}
    solver_time = 0.0
    samples, inconcl, cex = [], [], {}
    for r in results:
        if "fatal" in r:
            rep.harness_errors.append(f"{r['item']}: {r['fatal']}\n{r.get('tb', '')}")
            continue
        for k in tot:
            tot[k] += r[k]
        solver_time += r["solver_time"]
        if len(samples) < 8:
            samples += r["samples"]
        inconcl += r["inconclusive"]
        for c in r["cex"]:
            cex.setdefault(c["key"], c)
    for k, c in sorted(cex.items()):
        if c["payload"] is None:
            rep.harness_errors.append(f"{k}: {c['summary']}")
        else:
            rep.counterexample(k, c["payload"], c["summary"])
    if tot["obligations"] < 500:
        rep.harness_errors.append(f"vacuity guard: only {tot['obligations']} obligations")
    if tot["unknown"] or inconcl:
        rep.harness_errors.append(f"inconclusive: {tot['unknown']} {inconcl[:3]}")
    code = rep.finish()
    wall = time.time() - t0
    coverage = {
        "obligations": tot["obligations"], "discharged": tot["discharged"], "evaluations": tot["paths"], "distinct_nontrivial": len(cases),
        "rule": "one symbolic operation per (operation, key pair, column polarity) from an arbitrary state of the two keys; FIFO enqueue from an arbitrary ring state",
        "samples": samples[:8], "checker_cmd": "./check C14 --tier " + tier, "trusted_base": ["z3 5.1.0", "engines/pysym", "kbd_spec in checks/keyboard_check.py"],
        "explanation": "Step relations decided by z3 from arbitrary key/FIFO states: KIL shows exactly the debounced keys on strobed columns (both polarities, KOL and KOH columns); per scan tick each key follows the debounce/repeat/release automaton with at most one event, press only on entering and release only on leaving the debounced state; idle keys emit nothing; the ring buffer never exceeds 7 entries, drops only its oldest entry and keeps order.",
        "solver_time_s": round(solver_time, 2),
        "functions_encoded": ["pce500.keyboard_matrix.KeyboardMatrix.scan_tick/_update_key_state/_compute_kil/_active_columns/_enqueue_event/fifo_snapshot/read_kil/write_kol/write_koh/press_key/release_key",
                              "Rust (LLVM IR): sc62015_core::keyboard::KeyboardMatrix::new/load_snapshot_state/scan_tick/compute_kil/active_columns/enqueue_event/consume_pending_events/handle_read/handle_write/press_matrix_code/release_matrix_code/inject_matrix_event/write_fifo_to_memory, MemoryImage::read/write_internal_byte"],
        "bounds": {"keys": "2 symbolic keys per case (same row, same column, unrelated, KOH columns), all other keys idle", "operations": "1 operation from an arbitrary state (induction)",
                   "thresholds": "6-bit symbolic debounce/release/repeat settings, 8-bit tick counters",
                   "outside": "Python: KEYI gating lives in PCE500Emulator (machine level). Rust: keyi_on_any_press/raw_kil/disable_fifo_mirroring modes at their defaults; tick_timers_with_keyboard (timer.rs) glue is covered by C13's Rust half only for the timers",
                   "rust": "one operation of sc62015_core::keyboard::KeyboardMatrix (scan_tick, handle_read, handle_write, press/release_matrix_code, inject_matrix_event, write_fifo_to_memory) from an arbitrary state of the two keys, thresholds (6 bit), strobes, event ring (any head/count/contents), irq count and ISR, loaded through load_snapshot_state"},
    }
    assumptions = ["strobe bits are symbolic on the columns of the two chosen keys and a fixed inactive background elsewhere",
                   "scan_tick is analysed with an empty FIFO; the ring-buffer laws are decided separately on _enqueue_event from an arbitrary ring state"]
    common.write_evidence("C14", tier, "other", coverage, assumptions, wall, len(rep.violations))
    print(f"C14 {tier}: cases={len(cases)} paths={tot['paths']} obligations={tot['obligations']} discharged={tot['discharged']} cex={len(cex)} solver={solver_time:.1f}s wall={wall:.1f}s")
    return code


# ------------------------------------------------------------------ Rust half (sc62015_core::keyboard::KeyboardMatrix via rsym)

RS_OPS = ["scan_tick", "read_kil", "write_kol", "write_koh", "press", "release", "inject0", "inject1", "injectx", "write_fifo", "read_other"]


def _rs_ring_enqueue(st, byte, cond):
    """drop-oldest ring of capacity 8: st = (arr BV3->BV8, head BV3, count BV4)."""
    arr, head, count = st
    full = count == 8
    head1 = z3.If(full, head + 1, head)
    count1 = z3.If(full, count - 1, count)
    tail = head1 + z3.Extract(2, 0, count1)
    arr2 = z3.Store(arr, tail, byte)
    return (z3.If(cond, arr2, arr), z3.If(cond, head1, head), z3.If(cond, count1 + 1, count))


def key_spec_rust(k, thr, rep_enabled):
    """As key_spec, with the Rust model's repeat gate (repeat_enabled flag instead of interval > 0)."""
    act = z3.And(k["pressed"], k["strobed"])
    pt1 = k["pt"] + 1
    reach = z3.UGE(pt1, thr["press_threshold"])
    press_evt = z3.And(act, z3.Not(k["deb"]), reach)
    rp_dec = z3.If(z3.UGT(k["rp"], bv(0, 16)), k["rp"] - 1, k["rp"])
    rep_on = z3.And(act, k["deb"], rep_enabled)
    repeat_evt = z3.And(rep_on, rp_dec == 0)
    rt1 = k["rt"] + 1
    release_evt = z3.And(z3.Not(act), k["deb"], z3.UGE(rt1, thr["release_threshold"]))
    deb2 = z3.If(press_evt, z3.BoolVal(True), z3.If(release_evt, z3.BoolVal(False), k["deb"]))
    pt2 = z3.If(act, z3.If(k["deb"], k["pt"], z3.If(reach, thr["press_threshold"], pt1)), bv(0, 16))
    rt2 = z3.If(act, z3.If(k["deb"], bv(0, 16), z3.If(reach, bv(0, 16), k["rt"])), z3.If(k["deb"], z3.If(release_evt, bv(0, 16), rt1), k["rt"]))
    rp2 = z3.If(press_evt, thr["repeat_delay"], z3.If(rep_on, z3.If(repeat_evt, thr["repeat_interval"], rp_dec), z3.If(release_evt, bv(0, 16), k["rp"])))
    rp2 = z3.If(z3.And(z3.Not(k["pressed"]), z3.Not(deb2)), bv(0, 16), rp2)
    return deb2, pt2, rt2, rp2, press_evt, repeat_evt, release_evt


def _vars_of(t):
    out, seen, todo = set(), set(), [t]
    while todo:
        x = todo.pop()
        if x.get_id() in seen:
            continue
        seen.add(x.get_id())
        if z3.is_const(x) and x.decl().kind() == z3.Z3_OP_UNINTERPRETED:
            out.add(str(x))
        todo.extend(x.children())
    return out


def run_rust_case(item):
    tier, (op, pair, active_high) = item
    X.setup()
    from engines.rsym import build, interp
    from pce500.keyboard_matrix import KEY_LOCATIONS

    img, _b = build.image()
    key = f"rust:{op}:{pair[0]}+{pair[1]}:{'high' if active_high else 'low'}"
    res = {"key": key, "paths": 0, "obligations": 0, "discharged": 0, "unknown": 0, "cex": [], "solver_time": 0.0, "samples": [], "inconclusive": []}
    bg = 0x0000 if active_high else 0xFFFF
    B = z3.BitVec
    ins = {}
    keys = {}
    for i, name in enumerate(pair):
        loc = KEY_LOCATIONS[name]
        base = 300 + 40 * i
        ins[base] = len(name)
        for j, ch in enumerate(name.encode()):
            ins[base + 1 + j] = ch
        b = 400 + 8 * i
        ins[b], ins[b + 1] = z3.ZeroExt(31, B(f"pressed{i}", 1)), z3.ZeroExt(31, B(f"deb{i}", 1))
        ins[b + 2], ins[b + 3], ins[b + 4] = z3.ZeroExt(24, B(f"pt{i}", 8)), z3.ZeroExt(24, B(f"rt{i}", 8)), z3.ZeroExt(24, B(f"rp{i}", 8))
        keys[name] = {"col": loc.column, "row": loc.row, "pressed": B(f"pressed{i}", 1) == 1, "deb": B(f"deb{i}", 1) == 1, "pt": z3.ZeroExt(8, B(f"pt{i}", 8)),
                      "rt": z3.ZeroExt(8, B(f"rt{i}", 8)), "rp": z3.ZeroExt(8, B(f"rp{i}", 8)), "code": (loc.column << 3) | loc.row, "i": i}
    cols = sorted({k["col"] for k in keys.values()})
    word = z3.BitVecVal(bg, 16)
    sbits = {}
    for c in cols:
        sbits[c] = B(f"strobe{c}", 1)
        word = (word & ~(1 << c)) | (z3.ZeroExt(15, sbits[c]) << c)
    word = z3.simplify(word)
    ins[420], ins[421] = z3.ZeroExt(24, z3.Extract(7, 0, word)), z3.ZeroExt(24, z3.Extract(15, 8, word))
    ins[422] = 1 if active_high else 0
    ins[428] = 0 if active_high else 1  # polarity the state was loaded under: the opposite one, flipped by set_columns_active_high before the operation
    thr = {}
    for idx, (name, lo) in zip((423, 424, 425, 426), (("press_threshold", 1), ("release_threshold", 1), ("repeat_delay", 0), ("repeat_interval", 1))):
        ins[idx] = z3.ZeroExt(26, B(name, 6))
        thr[name] = z3.ZeroExt(10, B(name, 6))
    rep_en = B("rep_en", 1)
    ins[427] = z3.ZeroExt(31, rep_en)
    head, count = B("head", 3), B("count", 4)
    ins[430] = z3.ZeroExt(28, count)
    ins[431] = z3.ZeroExt(29, head)
    ins[432] = z3.ZeroExt(29, head + z3.Extract(2, 0, count))
    irq0, isr0 = B("irq0", 16), B("isr0", 8)
    ins[433], ins[434] = z3.ZeroExt(16, irq0), z3.ZeroExt(24, isr0)
    farr = z3.K(z3.BitVecSort(3), bv(0, 8))
    for j in range(8):
        ins[440 + j] = z3.ZeroExt(24, B(f"f{j}", 8))
        farr = z3.Store(farr, bv(j, 3), B(f"f{j}", 8))
    for k in keys.values():
        bit = sbits[k["col"]]
        k["strobed"] = (bit == 1) if active_high else (bit == 0)
    a1, a2, a3 = B("a1", 8), B("a2", 8), B("a3", 1)
    assumptions = [z3.ULE(count, 8), z3.UGE(B("press_threshold", 6), 1), z3.UGE(B("release_threshold", 6), 1), z3.UGE(B("repeat_interval", 6), 1)]
    code0 = keys[pair[0]]["code"]
    opn = {"scan_tick": 0, "read_kil": 1, "read_other": 1, "write_kol": 2, "write_koh": 2, "press": 3, "release": 4, "inject0": 5, "inject1": 5, "injectx": 5, "write_fifo": 6}[op]
    ins[450] = opn
    nb = {}
    if op == "scan_tick":
        ins[451] = z3.ZeroExt(31, a3)
    elif op == "read_kil":
        ins[451] = 0xF2
    elif op == "read_other":
        ins[451] = z3.ZeroExt(24, a1)
        assumptions.append(z3.Or(a1 == 0xF0, a1 == 0xF1, a1 == 0xF3, a1 == 0x00))
    elif op in ("write_kol", "write_koh"):
        ins[451] = 0xF0 if op == "write_kol" else 0xF1
        nword = z3.BitVecVal(bg, 16)
        for c in cols:
            nb[c] = B(f"nstrobe{c}", 1)
            nword = (nword & ~(1 << c)) | (z3.ZeroExt(15, nb[c]) << c)
        nword = z3.simplify(nword)
        ins[452] = z3.ZeroExt(24, z3.Extract(7, 0, nword) if op == "write_kol" else z3.Extract(15, 8, nword))
    elif op in ("press", "release"):
        ins[451] = code0
    elif op.startswith("inject"):
        # injected code: one of the two keys or an idle cell of the matrix
        icode = {"inject0": code0, "inject1": keys[pair[1]]["code"], "injectx": 0x7F}[op]
        ins[451], ins[452], ins[453] = icode, z3.ZeroExt(24, a2), z3.ZeroExt(31, a3)
        assumptions.append(a1 == icode)
    elif op == "write_fifo":
        ins[451] = z3.ZeroExt(31, a3)

    def fn():
        out = {}
        cells = {}
        post = {}

        def vout(m, i, v):
            if i == 99:
                # per-key automaton cells: the one heap byte whose contents mention only that input
                for a, c in m.mem.items():
                    if type(c) is int or a < interp.HEAP_BASE or a >= m.heap:
                        continue
                    t = z3.simplify(c if type(c) is not tuple else z3.Extract(8 * c[1] + 7, 8 * c[1], c[0]))
                    vs = _vars_of(t)
                    if len(vs) == 1:
                        (nm,) = vs
                        if nm[:-1] in ("pressed", "deb", "pt", "rt", "rp") and nm[-1] in "01":
                            cells.setdefault(nm, []).append(a)
                        elif nm[0] == "f" and nm[1:].isdigit() and t.size() == 8:
                            cells.setdefault(nm, []).append(a)
                    # ring indices are usize cells: byte 0 of a 64-bit value over head / count / both
                    if type(c) is tuple and c[1] == 0 and c[0].size() == 64:
                        if vs == {"head"}:
                            cells.setdefault("ring.head", []).append(a)
                        elif vs == {"count"}:
                            cells.setdefault("ring.count", []).append(a)
                        elif vs == {"head", "count"}:
                            cells.setdefault("ring.tail", []).append(a)
                for nm in [f"f{j}" for j in range(8)] + ["ring.head", "ring.count", "ring.tail"]:
                    if len(cells.get(nm, [])) != 1:
                        raise RuntimeError(f"event ring cell {nm} not located uniquely: {cells.get(nm)}")
                for i_ in (0, 1):
                    for f in ("pressed", "deb", "pt", "rt", "rp"):
                        if len(cells.get(f"{f}{i_}", [])) != 1:
                            raise RuntimeError(f"key cell {f}{i_} not located uniquely: {cells.get(f'{f}{i_}')}")
            elif i == 98:
                for nm, (a,) in cells.items():
                    post[nm] = m.load_bytes(a, 8 if nm.startswith("ring.") else 1)
            else:
                out[i] = v

        hooks = {"verif_in": lambda m, i: ins.get(i, 0), "verif_out": vout, "verif_load": lambda m, a: 0, "verif_store": lambda m, a, v: None}
        m = interp.Machine(img, hooks)
        m.array_mode = True
        m.merge_tables = True
        m.STEP_LIMIT = 20_000_000
        m.run(img.mod.functions["harness_kb"], [])
        return out, m.steps, post

    try:
        paths, stats = explore(fn, max_paths=4000, deadline_s=600, timeout_ms=10000, assumptions=assumptions)
    except core.PathLimit as e:
        res["inconclusive"].append(str(e))
        return res
    res["paths"] = len(paths)
    res["solver_time"] += stats.solver_time
    T = interp.to_term
    ring0 = (farr, head, count)
    keyi0 = count != 0
    for p in paths:
        if p.status != "ok":
            if p.status == "inconclusive":
                res["inconclusive"].append(p.detail[:100])
            else:
                res["cex"].append({"key": f"{key}|raises|{type(p.exc).__name__}", "summary": repr(p.exc)[:200], "payload": None})
            continue
        out, steps, post = p.value
        checks = []
        o32 = lambda i: T(out[i], 32)  # noqa: E731

        def kpost(i):
            return {"pressed": T(post[f"pressed{i}"], 8) != 0, "deb": T(post[f"deb{i}"], 8) != 0, "pt": z3.ZeroExt(8, T(post[f"pt{i}"], 8)),
                    "rt": z3.ZeroExt(8, T(post[f"rt{i}"], 8)), "rp": z3.ZeroExt(8, T(post[f"rp{i}"], 8))}

        def ring_checks(ring, label=""):
            arr, hd, cnt = ring
            checks.append((f"fifo-length{label}", o32(4) != z3.ZeroExt(28, cnt)))
            checks.append((f"fifo-length-bounded{label}", z3.UGT(o32(4), 8)))
            ph, pc_, pt_ = T(post["ring.head"], 64), T(post["ring.count"], 64), T(post["ring.tail"], 64)
            checks.append((f"fifo-count-cell{label}", pc_ != z3.ZeroExt(60, cnt)))
            checks.append((f"fifo-head{label}", z3.And(cnt != 0, ph != z3.ZeroExt(61, hd))))
            checks.append((f"fifo-tail-is-head-plus-count{label}", z3.Or(z3.UGT(ph, 7), z3.UGT(pt_, 7), z3.Extract(2, 0, pt_) != z3.Extract(2, 0, ph) + z3.Extract(2, 0, pc_))))
            # live entries (oldest first): slot (head + j) mod 8 for j < count
            parr = z3.K(z3.BitVecSort(3), bv(0, 8))
            for j in range(8):
                parr = z3.Store(parr, bv(j, 3), T(post[f"f{j}"], 8))
            jj = z3.BitVec("x_slot", 3)
            checks.append((f"fifo-drops-only-oldest-keeps-order{label}",
                           z3.And(z3.ULT(z3.ZeroExt(1, jj), cnt), z3.Select(parr, z3.Extract(2, 0, ph) + jj) != z3.Select(arr, hd + jj))))

        def unchanged_keys(which=(0, 1), fields=("pressed", "deb", "pt", "rt", "rp")):
            for i in which:
                kp, k0 = kpost(i), keys[pair[i]]
                for f in fields:
                    checks.append((f"key{i}.{f}-unchanged", kp[f] != k0[f]))

        def keyi_check(keyi_spec, cnt):
            checks.append(("keyi-raised-only-when-latched-and-events-pending", ((o32(10) & 4) != 0) != z3.And(keyi_spec, cnt != 0)))

        if op == "scan_tick":
            ring = ring0
            n_evt = bv(0, 16)
            any_evt = z3.BoolVal(False)
            post_deb = {}
            for name in sorted(pair, key=lambda n: keys[n]["code"]):
                k = keys[name]
                i = k["i"]
                d2, pt2, rt2, rp2, pe, re_, rl = key_spec_rust(k, thr, rep_en == 1)
                kp = kpost(i)
                post_deb[name] = d2
                checks += [(f"key{i}:pressed-unchanged", kp["pressed"] != k["pressed"]), (f"key{i}:debounced", kp["deb"] != d2), (f"key{i}:press_ticks", kp["pt"] != pt2),
                           (f"key{i}:release_ticks", kp["rt"] != rt2), (f"key{i}:repeat_ticks", kp["rp"] != rp2),
                           (f"key{i}:at-most-one-event-per-tick", z3.Or(z3.And(pe, re_), z3.And(pe, rl), z3.And(re_, rl)))]
                ring = _rs_ring_enqueue(ring, bv(k["code"], 8), z3.Or(pe, re_))
                ring = _rs_ring_enqueue(ring, bv(k["code"] | 0x80, 8), rl)
                ev = z3.Or(pe, re_, rl)
                n_evt = n_evt + z3.If(ev, bv(1, 16), bv(0, 16))
                any_evt = z3.Or(any_evt, ev)
            checks.append(("event-count", o32(1) != z3.ZeroExt(16, n_evt)))
            ring_checks(ring)
            cirq = a3 == 1
            checks.append(("irq-count", o32(3) != z3.ZeroExt(16, irq0) + z3.If(cirq, z3.ZeroExt(16, n_evt), bv(0, 32))))
            checks.append(("kil-latch", o32(7) != z3.ZeroExt(24, kil_spec(keys, lambda c, k: post_deb[c]))))
            checks.append(("isr-untouched-by-scan", o32(2) != z3.ZeroExt(24, isr0)))
            keyi_check(z3.If(ring[2] == 0, z3.BoolVal(False), z3.If(z3.And(cirq, any_evt), z3.BoolVal(True), keyi0)), ring[2])
        elif op == "read_kil":
            val = o32(1)
            checks.append(("kil-read-returns-a-value", z3.UGT(val, 0xFF)))
            rows = {}
            for name, k in keys.items():
                rows.setdefault(k["row"], []).append(k)
            for r in range(8):
                bit = (val >> r) & 1
                ks = rows.get(r, [])
                may = z3.Or(*[z3.And(k["strobed"], z3.Or(k["pressed"], k["deb"])) for k in ks]) if ks else z3.BoolVal(False)
                must = z3.Or(*[z3.And(k["strobed"], k["pressed"], k["deb"]) for k in ks]) if ks else z3.BoolVal(False)
                checks.append((f"kil-row{r}-never-shown-without-held-or-recently-released-key", z3.And(bit == 1, z3.Not(may))))
                if ks:
                    checks.append((f"kil-row{r}-always-shown-for-debounced-held-key", z3.And(must, bit == 0)))
        elif op == "read_other":
            want = z3.If(a1 == 0xF0, z3.ZeroExt(24, z3.Extract(7, 0, word)), z3.If(a1 == 0xF1, z3.ZeroExt(24, z3.Extract(15, 8, word)), bv(0x100, 32)))
            checks.append(("read-kol-koh-or-none", o32(1) != want))
            unchanged_keys()
            ring_checks(ring0)
        elif op in ("write_kol", "write_koh"):
            def strobed_after(k):
                c = k["col"]
                changed = (c < 8) if op == "write_kol" else (c >= 8)
                bit = nb[c] if changed else sbits[c]
                return (bit == 1) if active_high else (bit == 0)
            want = bv(0, 8)
            for name, k in keys.items():
                want = want | z3.If(z3.And(strobed_after(k), k["deb"]), bv(1 << k["row"], 8), bv(0, 8))
            checks.append(("kil-follows-new-strobe", o32(7) != z3.ZeroExt(24, want)))
            nv = z3.Extract(7, 0, T(ins[452], 32))
            lo_, hi_ = (nv, z3.Extract(15, 8, word)) if op == "write_kol" else (z3.Extract(7, 0, word), nv)
            checks.append(("kol-register", o32(8) != z3.ZeroExt(24, lo_)))
            checks.append(("koh-register", o32(9) != z3.ZeroExt(24, hi_)))
            checks.append(("register-mirrored-to-imem", o32(5 if op == "write_kol" else 6) != z3.ZeroExt(24, nv)))
            unchanged_keys()
            ring_checks(ring0)
        elif op == "press":
            kp, k0 = kpost(0), keys[pair[0]]
            checks.append(("press-sets-pressed", z3.Not(kp["pressed"])))
            checks.append(("press-keeps-debounced", kp["deb"] != k0["deb"]))
            unchanged_keys(which=(1,))
            ring_checks(ring0)
        elif op == "release":
            kp, k0 = kpost(0), keys[pair[0]]
            checks.append(("release-clears-pressed", kp["pressed"]))
            checks.append(("release-keeps-debounced-until-interval", kp["deb"] != k0["deb"]))
            unchanged_keys(which=(1,))
            ring_checks(ring0)
        elif op.startswith("inject"):
            byte = (a1 & 0x7F) | z3.If((a2 & 1) == 1, bv(0x80, 8), bv(0, 8))
            ring = _rs_ring_enqueue(ring0, byte, z3.BoolVal(True))
            ring_checks(ring)
            checks.append(("irq-count", o32(3) != z3.ZeroExt(16, irq0) + 1))
            checks.append(("keyi-only-when-keyboard-interrupts-enabled", o32(2) != z3.ZeroExt(24, z3.If(a3 == 1, isr0 | 4, isr0))))
        elif op == "write_fifo":
            checks.append(("keyi-only-when-events-pending-and-enabled", o32(2) != z3.ZeroExt(24, z3.If(z3.And(a3 == 1, keyi0, count != 0), isr0 | 4, isr0))))
            unchanged_keys()
            ring_checks(ring0)
        for name, neg in checks:
            res["obligations"] += 1
            r_, m_, dt = X.solve(list(p.constraints) + assumptions, [neg], fast=True)
            res["solver_time"] += dt
            if r_ == "unsat":
                res["discharged"] += 1
                if len(res["samples"]) < 1:
                    res["samples"].append({"case": key, "obligation": name, "rust_ir_steps": steps, "negated_post_head": neg.sexpr()[:140]})
            elif r_ == "sat":
                model = {str(d): m_[d].as_long() for d in m_.decls() if hasattr(m_[d], "as_long")}
                inputs = {}
                for i_, v_ in ins.items():
                    inputs[str(i_)] = v_ if type(v_) is int else m_.eval(v_, model_completion=True).as_long()
                payload = {"property": "C14", "kind": "keyboard", "rust": True, "key": f"{key}|{name}", "op": op, "pair": list(pair), "active_high": active_high,
                           "model": model, "inputs": inputs, "obligation": name}
                res["cex"].append({"key": f"rust:{op}|{'high' if active_high else 'low'}|{name}", "summary": f"{key}: {name}", "payload": payload})
            else:
                res["unknown"] += 1
    return res
