"""Concrete replay for C08 (Python register file)."""


def replay_rust(rec):
    from engines.rsym import build
    from checks.regfile_check import RS_REGS, RS_BASE, RS_MASKS

    inputs = {int(k): v for k, v in rec["inputs"].items()}
    r = build.run_replay("harness_regfile", inputs, {})
    st = {"BA": 0, "I": 0, "X": 0, "Y": 0, "U": 0, "S": 0, "PC": 0, "F": 0, "TEMP3": 0, "TEMP5": 0, "IMR": 0}
    seq = [(n, inputs[i]) for i, n in enumerate(RS_BASE)] + [("TEMP3", inputs[8]), ("TEMP5", inputs[9])]
    seq += [(w, inputs[42 + 2 * k]) for k, w in enumerate(rec["writes"])]
    for name, v in seq:
        if name == "A":
            st["BA"] = (st["BA"] & 0xFF00) | (v & 0xFF)
        elif name == "B":
            st["BA"] = (st["BA"] & 0x00FF) | ((v & 0xFF) << 8)
        elif name == "IL":
            st["I"] = v & 0xFF
        elif name == "IH":
            st["I"] = (st["I"] & 0xFF) | ((v & 0xFF) << 8)
        elif name in ("I", "BA"):
            st[name] = v & 0xFFFF
        elif name in ("X", "Y", "U", "S", "PC"):
            st[name] = v & 0xFFFFF
        elif name in ("F", "IMR"):
            st[name] = v & 0xFF
        elif name == "FC":
            st["F"] = (st["F"] & 0xFE) | (v & 1)
        elif name == "FZ":
            st["F"] = (st["F"] & 0xFD) | ((v & 1) << 1)
        else:
            st[name] = v & 0xFFFFFF
    want = {"A": st["BA"] & 0xFF, "B": st["BA"] >> 8, "IL": st["I"] & 0xFF, "IH": st["I"] >> 8, "FC": st["F"] & 1, "FZ": (st["F"] >> 1) & 1}
    bad = []
    for i, n in enumerate(RS_REGS):
        w = want.get(n, st.get(n))
        if r["out"].get(i) != w:
            bad.append(f"{n}: rust {r['out'].get(i)} want {w}")
        if r["out"].get(20 + i) != RS_MASKS[n]:
            bad.append(f"mask_for {n}: {r['out'].get(20 + i)}")
    print("native rust register file:", bad[:6])
    return bool(bad)


def replay(rec):
    if rec.get("rust"):
        return replay_rust(rec)
    from sc62015.pysc62015.emulator import Registers, RegisterName
    from sc62015.pysc62015.stepper import CPURegistersSnapshot
    from checks.regfile_check import READ_NAMES, BASE

    regs = Registers()
    for n, v in rec["init"].items():
        regs._values[RegisterName[n]] = v

    def wr(r, name, v):
        if name.startswith("flag:"):
            r.set_flag(name[5:], v)
        elif name in ("A", "X", "F"):
            r.set_by_name(name, v)
        else:
            r.set(RegisterName[name], v)

    def rd(r, name):
        if name.startswith("flag:"):
            return r.get_flag(name[5:])
        if name in ("B", "Y", "F"):
            return r.get_by_name(name)
        return r.get(RegisterName[name])

    # reference model in plain Python (mirror of spec_write/spec_read)
    st = dict(rec["init"])
    for name, v in zip(rec["writes"], rec["values"]):
        wr(regs, name, v)
        if name == "A":
            st["BA"] = (st["BA"] & 0xFF00) | (v & 0xFF)
        elif name == "B":
            st["BA"] = (st["BA"] & 0x00FF) | ((v & 0xFF) << 8)
        elif name == "IL":
            st["I"] = v & 0xFF
        elif name == "IH":
            st["I"] = (st["I"] & 0xFF) | ((v & 0xFF) << 8)
        elif name in ("I", "BA"):
            st[name] = v & 0xFFFF
        elif name in ("X", "Y", "U", "S", "PC"):
            st[name] = v & 0xFFFFF
        elif name == "F":
            st["F"] = v & 0xFF
        elif name in ("FC", "flag:C"):
            st["F"] = (st["F"] & 0xFE) | (v & 1)
        elif name in ("FZ", "flag:Z"):
            st["F"] = (st["F"] & 0xFD) | ((v & 1) << 1)
        else:
            st[name] = v & 0xFFFFFF

    def want(name):
        return {"A": st["BA"] & 0xFF, "B": st["BA"] >> 8, "IL": st["I"] & 0xFF, "IH": st["I"] >> 8, "FC": st["F"] & 1, "flag:C": st["F"] & 1,
                "FZ": (st["F"] >> 1) & 1, "flag:Z": (st["F"] >> 1) & 1}.get(name, st.get(name))

    ob = rec["obligation"]
    kind, _, name = ob.partition(" ")
    if kind == "read":
        got = rd(regs, name)
        print(f"read {name}: got {got:#x} want {want(name):#x}")
        return got != want(name)
    if kind == "invariant":
        bits = dict(BASE, TEMP3=24, TEMP5=24)[name]
        v = regs._values[RegisterName[name]]
        print(f"stored {name} = {v:#x}")
        return not (0 <= v < (1 << bits))
    if kind == "snapshot":
        for t in range(14):
            if t not in (3, 5):
                regs._values[RegisterName[f"TEMP{t}"]] = 0
        regs.call_sub_level = 2
        snap = CPURegistersSnapshot.from_registers(regs)
        fresh = Registers()
        snap.apply_to(fresh)
        if name == "call_sub_level":
            return fresh.call_sub_level != 2
        if name.startswith("dict"):
            print("to_dict f", snap.to_dict()["f"], "want", want("F"))
            return snap.to_dict()["f"] != want("F")
        print(f"snapshot {name}: fresh {rd(fresh, name):#x} original {rd(regs, name):#x}")
        return rd(fresh, name) != rd(regs, name)
    return False
