"""C09: disassembled text reassembles to an equivalent instruction.

One symbolic run per (prefix bytes, opcode byte, length) class of the real decoder (as C01/C02).  The operand bytes are
z3 variables; the real ``render()`` produces the token stream, which is turned into assembler source the way the property
says ("numbers as hexadecimal literals, named internal registers by name").  A number that is a *term* is written as a
**magic numeral** (``0x7E57nnnn``): the text stays concrete, so the real lark grammar and ``AsmTransformer`` run unchanged, and
the rebound ``int`` of the instrumented ``asm``/``sc_asm`` modules maps the numeral back to its term at the one place where
those modules turn a numeral into a number (``int(s, 0)``).  The real two-pass ``Assembler.assemble`` then emits bytes that are
terms over the original operand bytes; z3 decides the obligations for all operand values of the class at once.
"""
from __future__ import annotations

import re
import time

import z3

from . import common
from . import isa_exec as X
from .decode_check import tok_parts, parts_equal_term, il_parts, _HANDLE
from engines.pysym import core
from engines.pysym.core import SymInt, explore
from engines.pysym.containers import SymBytes

MAGIC_BASE = 0x7E570000
_HEX = re.compile(r"[0-9A-Fa-f]+")


class _Recorder:
    """Stands in for bincopy.BinFile inside sc_asm: records (address, bytes) chunks (bincopy itself is C-level bytes handling)."""

    def __init__(self):
        self.chunks = []

    def add_binary(self, data, address=0, overwrite=False):
        self.chunks.append((address, list(data)))


class _FakeBincopy:
    BinFile = _Recorder


def asm_text(tokens, eng):
    """Token stream -> assembler source text; (text, signature)."""
    out, sig = [], []
    names = _imem_names()

    def numeral(val_text):
        # val_text: hex digits or one handle
        m = _HANDLE.fullmatch(val_text)
        if m:
            return eng.new_magic(eng.handles[val_text])
        if _HEX.fullmatch(val_text):
            return "0x" + val_text
        raise core.Inconclusive(f"numeral token of unexpected form {val_text!r}")

    for t in tokens:
        n = type(t).__name__
        if n == "TInt":
            v = t.value
            sign = ""
            if v[:1] in "+-":
                sign, v = v[0], v[1:]
            out.append(sign + numeral(v))
            sig.append(sign + "n")
        elif n == "TAddr":
            v = t.value
            if type(v) is SymInt:
                out.append(eng.new_magic(v))
            else:
                out.append("0x%05X" % v)
            sig.append("a")
        else:
            s = str(t)
            out.append(s)
            if n == "TSep":
                sig.append("," if "," in s else s.strip())
            elif n == "TInstr":
                sig.append(s.strip() + " ")
            elif n == "TReg":
                sig.append(_REGCLASS.get(s, s))
            else:
                sig.append("NAME" if (s in names and s not in ("BP", "PX", "PY")) else s)
    sg = "".join(sig)
    for r in ("(BP)", "(PX)", "(PY)"):  # the internal registers BP/PX/PY themselves, addressed directly
        sg = sg.replace(r, "(NAME)")
    return "".join(out), sg


_NAMES = None
_REGCLASS = {"A": "r1", "B": "r1", "IL": "r1", "IH": "r1", "BA": "r2", "I": "r2", "X": "r3", "Y": "r3", "U": "r3", "S": "r3"}


def _imem_names():
    global _NAMES
    if _NAMES is None:
        from sc62015.pysc62015.instr.opcodes import IMEMRegisters

        _NAMES = {m.name for m in IMEMRegisters}
    return _NAMES


def _assemble(text):
    from sc62015.pysc62015 import sc_asm

    if getattr(sc_asm, "bincopy", None) is not _FakeBincopy:
        sc_asm.bincopy = _FakeBincopy
    a = sc_asm.Assembler()
    return a.assemble(text).chunks


def _errclass(e):
    s = str(e)
    s = s.split("\n")[0]
    s = re.sub(r"0x[0-9A-Fa-f]+|⟦[^⟧]*⟧|\b\d+\b", "#", s)
    s = re.sub(r"\s+", " ", s)
    for pat, name in (("Parsing failed", "parse"), ("Value not set", "value-not-set"), ("Invalid addressing mode combination", "invalid-mode-combination"),
                      ("Could not find a matching opcode", "no-matching-opcode"), ("Unsupported addressing mode", "unsupported-mode"),
                      ("Use IMEM register name", "wants-register-name")):
        if pat in s:
            return name
    return type(e).__name__ + ":" + s[:40]


def run_class(item):
    tier, (pre_bytes, opcode, L, b2set), org = item
    X.setup()
    t0 = time.time()
    key = f"{''.join('%02X' % p for p in pre_bytes) or '--'}:{opcode:02X}:L{L}@{org:05X}"
    res = {"key": key, "paths": 0, "accepted": 0, "rejected": 0, "obligations": 0, "discharged": 0, "unknown": 0,
           "inconclusive": [], "cex": [], "solver_time": 0.0, "samples": [], "signatures": {}}
    from sc62015.pysc62015.instr import decode, OPCODES
    from binja_test_mocks.mock_llil import MockLowLevelILFunction

    head = list(pre_bytes) + [opcode]
    nsym = L - len(head)
    named_limit = 0 if tier == "quick" else 1

    def fn():
        eng = core.engine()
        obytes = [SymInt.var(f"b{i + 1}", 8) for i in range(nsym)]
        body = head + obytes
        if b2set is not None and obytes:
            eng.assume(z3.Or(*[obytes[0].t == core._bv(v) for v in b2set]))
        if len(obytes) >= 2:
            nv = X.named_values()
            isn = [z3.Or(*[b.t == core._bv(v) for v in nv]) for b in obytes]
            eng.assume(z3.AtMost(*isn, named_limit))
        addr = org
        obs = {"body": body, "checks": [], "accepted": False}
        chk = obs["checks"]
        try:
            instr = decode(SymBytes(body), addr, OPCODES)
        except AssertionError:
            instr = None
        if instr is None or instr.length() != L:
            return obs
        name = instr.name()
        if name.startswith("PRE") or name.startswith("???"):
            obs["skipped"] = name
            return obs
        obs["accepted"] = True
        toks = instr.render()
        p0 = tok_parts(toks, eng.handles)
        text, sig = asm_text(toks, eng)
        src = (f".ORG 0x{org:05X}\n" if org else "") + text + "\n"
        obs["text"], obs["sig"] = text, sig
        try:
            chunks = _assemble(src)
        except core.PysymAbort:
            raise
        except Exception as e:  # noqa: BLE001
            chk.append(("asm-rejects:" + _errclass(e), z3.BoolVal(True), str(e)[:160].replace("\n", " ")))
            return obs
        if len(chunks) != 1 or chunks[0][0] != org:
            chk.append(("asm-layout", z3.BoolVal(True), f"chunks at {[c[0] for c in chunks]}"))
            return obs
        out1 = chunks[0][1]
        obs["out_len"] = len(out1)
        try:
            instr2 = decode(SymBytes(list(out1)), addr, OPCODES)
        except AssertionError:
            instr2 = None
        if instr2 is None:
            chk.append(("redecode-rejects", z3.BoolVal(True), f"emitted {len(out1)} bytes"))
            return obs
        if instr2.length() != len(out1):
            chk.append(("emitted-length-differs", z3.BoolVal(True), f"emitted {len(out1)} bytes, decoder consumes {instr2.length()}"))
            return obs
        toks2 = instr2.render()
        p2 = tok_parts(toks2, eng.handles)
        e2 = parts_equal_term(p0, p2)
        chk.append(("text-differs", z3.Not(e2) if z3.is_expr(e2) else z3.BoolVal(not e2), f"{len(out1)} bytes vs {L}"))
        il1, il2 = MockLowLevelILFunction(), MockLowLevelILFunction()
        instr.lift(il1, addr)
        instr2.lift(il2, addr)
        if len(out1) == L:
            e3 = parts_equal_term(il_parts(il1.ils), il_parts(il2.ils))
            chk.append(("il-differs", z3.Not(e3) if z3.is_expr(e3) else z3.BoolVal(not e3), ""))
        # second round: the emitted bytes, disassembled and assembled again, are unchanged
        text2, _ = asm_text(toks2, eng)
        src2 = (f".ORG 0x{org:05X}\n" if org else "") + text2 + "\n"
        try:
            chunks2 = _assemble(src2)
            out2 = chunks2[0][1] if len(chunks2) == 1 else None
        except core.PysymAbort:
            raise
        except Exception as e:  # noqa: BLE001
            chk.append(("second-round-rejects:" + _errclass(e), z3.BoolVal(True), str(e)[:160].replace("\n", " ")))
            return obs
        if out2 is None or len(out2) != len(out1):
            chk.append(("second-round-length", z3.BoolVal(True), f"{None if out2 is None else len(out2)} vs {len(out1)}"))
        else:
            eq = SymBytes(list(out2)) == SymBytes(list(out1))
            chk.append(("second-round-differs", z3.Not(eq.t if isinstance(eq, core.SymBool) else z3.BoolVal(bool(eq))), ""))
        return obs

    try:
        paths, stats = explore(fn, max_paths=6000, timeout_ms=20000)
    except core.PathLimit as e:
        res["inconclusive"].append(str(e))
        return res
    res["paths"] = len(paths)
    res["solver_time"] += stats.solver_time
    for p in paths:
        if p.status == "inconclusive":
            res["inconclusive"].append(p.detail[:100])
            continue
        if p.status == "exception":
            res["cex"].append({"key": f"harness-exception|{type(p.exc).__name__}", "summary": f"{key}: {p.exc!r}"[:200], "payload": None})
            continue
        v = p.value
        if not v["accepted"]:
            res["rejected"] += 1
            continue
        res["accepted"] += 1
        sig = v["sig"]
        res["signatures"][sig] = res["signatures"].get(sig, 0) + 1
        held = []  # obligations are ordered: a later one is asked only for the operand values for which the earlier ones hold
        for (name, neg, detail) in v["checks"]:
            res["obligations"] += 1
            r, m, dt = X.solve(list(p.constraints) + held, [neg])
            held.append(z3.Not(neg))
            res["solver_time"] += dt
            if r == "unsat":
                res["discharged"] += 1
                if not res["samples"]:
                    res["samples"].append({"class": key, "obligation": name, "text": v["text"], "negated_post_head": neg.sexpr()[:120]})
            elif r == "sat":
                ev = lambda t: m.eval(t, model_completion=True).as_long()  # noqa: E731
                body = [b if isinstance(b, int) else ev(core.term_of(b, 8)) for b in v["body"]]
                pre = "pre" + "".join("%02X" % b for b in pre_bytes) if pre_bytes else "nopre"
                ckey = f"{pre}|{sig}|{name}"
                payload = {"property": "C09", "kind": "asm", "key": ckey, "class": key, "bytes": body, "addr": org, "obligation": name, "detail": detail,
                           "text": v["text"]}
                res["cex"].append({"key": ckey, "summary": f"{key} {v['text']!r} {detail}", "payload": payload})
            else:
                res["unknown"] += 1
    res["wall"] = time.time() - t0
    return res


def classes(tier):
    pr = X.structure_probe()
    out = []
    if tier == "quick":
        prefix_sets = [(), (0x32,), (0x23,), (0x25,), (0x36,)]
    else:
        prefix_sets = [()] + [(p,) for p in X.PRE_BYTES]
    for ps in prefix_sets:
        for op in range(256):
            if op in X.PRE_BYTES:
                continue
            by_len = pr.get(op) or {}
            for n0, b2s in sorted(by_len.items()):
                b2 = None if len(by_len) == 1 and len(b2s) == 256 else tuple(b2s)
                out.append((ps, op, n0 + len(ps), b2))
    return out


def main(tier, only=None):
    t0 = time.time()
    X.setup()
    rep = common.Report("C09")
    items = []
    for c in classes(tier):
        if only is not None and c[1] not in only:
            continue
        items.append((tier, c, 0))
        # control flow a second time on a high page (page-local operands, .ORG)
        if c[1] <= 0x1F and not c[0]:
            items.append((tier, c, 0x31000))
    results = common.pool_map(run_class, items, chunksize=4)
    tot = {k: 0 for k in ("paths", "accepted", "rejected", "obligations", "discharged", "unknown")}
    solver_time = 0.0
    inconcl, samples, sigs = [], [], {}
    cex_by_key = {}
    for r in results:
        if "fatal" in r:
            rep.harness_errors.append(f"{r['item']}: {r['fatal']}\n{r.get('tb', '')}")
            continue
        for k in tot:
            tot[k] += r[k]
        solver_time += r["solver_time"]
        inconcl += [f"{r['key']}: {x}" for x in r["inconclusive"]]
        for s, c in r["signatures"].items():
            sigs[s] = sigs.get(s, 0) + c
        if r["samples"] and len(samples) < 10:
            samples += r["samples"]
        for c in r["cex"]:
            cex_by_key.setdefault(c["key"], c)
    batch = []
    for key, c in sorted(cex_by_key.items()):
        if c["payload"] is None:
            rep.harness_errors.append(f"{key}: {c['summary']}")
        else:
            batch.append((key, c["payload"], c["summary"]))
    rep.counterexamples(batch)
    n_incon = len(inconcl) + tot["unknown"]
    floor = (300 if tier == "quick" else 1500) if only is None else 1
    if tot["discharged"] < floor:
        rep.harness_errors.append(f"vacuity guard: only {tot['discharged']} obligations discharged (< {floor})")
    if n_incon > 0.05 * max(1, tot["obligations"]):
        rep.harness_errors.append(f"too many inconclusive: {n_incon}: {inconcl[:5]}")
    code = rep.finish()
    wall = time.time() - t0
    coverage = {
        "programs": len(items),
        "disagreements_checked": rep.nreplay,
        "obligations": tot["obligations"],
        "discharged": tot["discharged"],
        "inconclusive": n_incon,
        "evaluations": tot["paths"],
        "distinct_nontrivial": len(sigs),
        "rule": "one symbolic run per (prefix bytes, opcode, length) class of the decoder; non-trivial = the decoder accepts and the text went through the assembler; distinct = distinct operand-shape signatures of the rendered text",
        "samples": samples[:8],
        "paths": tot,
        "solver_time_s": round(solver_time, 2),
        "inconclusive_details": inconcl[:20],
        "functions_encoded": [
            "sc62015.pysc62015.instr.opcodes.decode/fusion and every Operand.decode/render/encode/lift (as C01/C02)",
            "sc62015.pysc62015.asm.asm_parser (lark grammar asm.lark, on concrete text with magic numerals) and AsmTransformer.*",
            "sc62015.pysc62015.sc_asm.Assembler.assemble/_first_pass/_second_pass/_get_statement_size/_build_instruction/_encode_statement/_evaluate_operand/_normalize_near_control_flow/_apply_location",
        ],
        "bounds": {
            "texts": "one instruction per source text (plus an .ORG line for the second placement of the control-flow opcodes 00-1F at 0x31000)",
            "byte_strings": "prefix byte(s) + opcode concrete per class, every operand byte symbolic; quick: no prefix + PRE 32/23/25/36, thorough: all 15 PRE bytes",
            "named_registers": "at most %d operand byte(s) of a multi-byte operand field equal to a named internal register (rendered by name; 36-way case split each)" % (0 if tier == "quick" else 1),
            "rounds": "disassemble -> assemble -> disassemble -> assemble (two rounds)",
        },
        "known_findings_hit": {k: len(v) for k, v in rep.known_hits.items()},
    }
    assumptions = [
        "numerals that stand for a symbolic value are written as magic hexadecimal literals 0x7E57nnnn (8 digits) and mapped back to their term by the rebound int() of the instrumented asm/sc_asm modules; a consumer that inspected the digits of a numeral instead of calling int() would see the magic text (audited: asm.py/sc_asm.py only call int(s, 0), str.upper/strip and dictionary lookups by name on numerals)",
        "bincopy.BinFile replaced by a recorder of (address, bytes) chunks; bincopy's own overlap handling is outside",
        "IMEMRegisters value lookup with a symbolic key splits into one path per named register plus a no-name path (checks/isa_exec._SymKeyDict)",
        "equivalence of the re-assembled instruction = same rendered text (terms compared by z3), decoder consumes exactly the emitted bytes, structurally equal lifted IL when the length is unchanged, second round is a fixpoint; a redundant but harmless prefix byte (same text) is accepted",
    ]
    common.write_evidence("C09", tier, "translation_validation", coverage, assumptions, wall, len(rep.violations))
    print(f"C09 {tier}: classes={len(items)} paths={tot['paths']} accepted={tot['accepted']} obligations={tot['obligations']} discharged={tot['discharged']} "
          f"inconclusive={n_incon} cex_classes={len(cex_by_key)} signatures={len(sigs)} solver={solver_time:.1f}s wall={wall:.1f}s")
    return code
