"""C17: every copy of the architecture's tables and constants says the same thing.

(1) Opcode table: the static ``OPCODES`` array of the Rust crate is read through the crate's LLVM IR with the opcode byte
    as a symbolic 8-bit variable (one symbolic execution of ``harness_opcode_entry``); z3 decides, for all 256 values at
    once, equality of every field with the entry the repository's own generator (scripts/generate_llama_opcodes.py) derives
    from the Python ``opcode_table.OPCODES`` and with the Python decoder's view of the same opcode.
(2) Registers: widths / sub-register layout declared in arch.py, opcodes.REGISTERS/REG_SIZES, emulator.REGISTER_SIZE and
    Rust ``mask_for`` (executed from IR), as constraints over a symbolic register index.
(3) IMEM offsets, address-space constants and vectors: Python enums/constants vs the crate's pub consts (executed from IR).
(4) Binary Ninja views: z3 decides for an arbitrary address that at most one segment of a view contains it, every segment
    lies inside the address space and internal RAM sits where the lifter addresses it.

The data are finite and compared completely; the only symbolic variables are the table indices / the address.
"""
from __future__ import annotations

import importlib
import re
import sys
import time

import z3

from . import common
from . import isa_exec as X
from engines.pysym import core
from engines.pysym.core import explore

REG_CODE = {"A": 0, "B": 1, "BA": 2, "IL": 3, "IH": 4, "I": 5, "X": 6, "Y": 7, "U": 8, "S": 9, "F": 10, "PC": 11, "FC": 12, "FZ": 13, "IMR": 14}
OPK = {"Reg": 1, "Imm": 2, "ImmOffset": 3, "IMem": 4, "EMemAddr": 5, "EMemReg": 6, "EMemIMem": 7, "EMemImemOffsetDestIntMem": 8, "EMemImemOffsetDestExtMem": 9,
       "EMemRegModePostPre": 10, "EMemAddrWidth": 11, "EMemAddrWidthOp": 12, "EMemRegWidth": 13, "EMemRegWidthMode": 14, "EMemIMemWidth": 15, "IMemWidth": 16,
       "RegPair": 17, "RegIMemOffset": 18, "RegB": 19, "RegIL": 20, "RegIMR": 21, "RegF": 22, "Reg3": 23, "Unknown": 24, "Placeholder": 25, "ImemPtr": 26}


def bv(v, n):
    return z3.BitVecVal(v, n)


def table(values, b, bits=32):
    """z3 term: values[b] for the symbolic 8-bit index b (if-then-else chain over the 256 constants)."""
    arr = z3.K(z3.BitVecSort(8), bv(0, bits))
    for i, v in enumerate(values):
        if v:
            arr = z3.Store(arr, bv(i, 8), bv(v, bits))
    return z3.Select(arr, b)


def expected_entries():
    """Per opcode: the fields the generator script derives from the Python table (the repository's stated single source)."""
    sys.path.insert(0, common.REPO) if common.REPO not in sys.path else None
    gen = importlib.import_module("scripts.generate_llama_opcodes")
    mod = importlib.import_module("sc62015.pysc62015.instr.opcode_table")
    src = open(f"{common.REPO}/sc62015/core/src/llama/opcodes.rs").read()
    enum = re.search(r"pub enum InstrKind \{(.*?)\n\}", src, re.S).group(1)
    kinds = [k.strip().rstrip(",") for k in enum.split("\n") if k.strip() and not k.strip().startswith("//")]
    kind_ix = {k: i for i, k in enumerate(kinds)}
    out = {}
    for opcode, entry in mod.OPCODES.items():
        text = gen._opcode_entry(opcode, entry)
        g = lambda pat: re.search(pat, text).group(1)  # noqa: E731
        kind = g(r"kind: InstrKind::(\w+)")
        name = g(r'name: "([^"]*)"')
        cond = re.search(r'cond: Some\("([^"]*)"\)', text)
        rev = 2 if "ops_reversed: Some(true)" in text else (1 if "ops_reversed: Some(false)" in text else 0)
        ops = []
        if isinstance(entry, tuple):
            for op in getattr(entry[1], "ops", []) or []:
                ro = gen._map_operand(op)
                if type(op).__name__ == "EMemIMem":
                    # the generator reads Imm8.width() (the encoded byte) instead of the declared data width; the Python table's
                    # own statement is EMemIMem(width=n) -> _width (see DESIGN.md, C17: stale generator, not a table difference)
                    ro.args = [str(op._width)]
                p, q = 0, 0
                if ro.kind == "Reg":
                    p, q = REG_CODE[ro.args[0].split("::")[1]], int(ro.args[1])
                elif ro.kind == "RegIMemOffset":
                    p = 0 if ro.args[0].endswith("DestImem") else 1
                elif ro.args and ro.kind != "Unknown":
                    p = int(ro.args[0])
                ops.append((OPK[ro.kind], p, q))
        if kind not in kind_ix:
            raise RuntimeError(f"generator names InstrKind::{kind} for opcode {opcode:#x}, not a variant of the Rust enum")
        out[opcode] = {"kind": kind_ix[kind], "name": name, "cond": cond.group(1) if cond else None, "rev": rev, "ops": ops, "kind_name": kind}
    return out, kinds


def opcode_class(hi):
    """Opcodes hi*16 .. hi*16+15: the low nibble is symbolic."""
    X.setup()
    from engines.rsym import build, interp

    res = {"paths": 0, "obligations": 0, "discharged": 0, "unknown": 0, "cex": [], "solver_time": 0.0, "samples": [], "inconclusive": []}
    img, _b = build.image()
    exp, kinds = expected_entries()
    lo = z3.BitVec("opcode_lo", 4)
    b = z3.Concat(bv(hi, 4), lo)
    ins = {600: z3.ZeroExt(24, b)}

    def fn():
        out = {}
        hooks = {"verif_in": lambda m, i: ins.get(i, 0), "verif_out": lambda m, i, v: out.__setitem__(i, v), "verif_load": lambda m, a: 0, "verif_store": lambda m, a, v: None}
        m = interp.Machine(img, hooks)
        m.array_mode = True
        m.STEP_LIMIT = 5_000_000
        m.merge_tables = True
        m.run(img.mod.functions["harness_opcode_entry"], [])
        return out, m.steps

    paths, stats = explore(fn, max_paths=2000, deadline_s=600, timeout_ms=10000)
    res["paths"] += len(paths)
    res["solver_time"] += stats.solver_time
    T = interp.to_term
    E = lambda f, bits=32: table([f(exp.get(i)) if i in exp else 0 for i in range(256)], b, bits)  # noqa: E731
    covered = []
    for p in paths:
        if p.status != "ok":
            if p.status == "inconclusive" and "became unsatisfiable" in (p.detail or ""):
                continue  # an infeasible branch, noticed late: nothing to check (coverage of all opcodes is decided below)
            res["inconclusive"].append(f"opcode table path: {p.status} {p.detail[:100] if p.detail else p.exc!r}")
            continue
        out, steps = p.value
        covered.append(z3.And(*p.constraints) if p.constraints else z3.BoolVal(True))
        checks = [("opcode-field", T(out[0], 32) != z3.ZeroExt(24, b)), ("kind", T(out[1], 32) != E(lambda e: e["kind"])),
                  ("name-length", T(out[2], 32) != E(lambda e: len(e["name"]))), ("ops-reversed", T(out[4], 32) != E(lambda e: e["rev"])),
                  ("operand-count", T(out[5], 32) != E(lambda e: len(e["ops"]))),
                  ("condition-length", T(out[3], 32) != E(lambda e: 1 + len(e["cond"]) if e["cond"] else 0))]
        for i in range(12):
            if 10 + i in out:
                checks.append((f"name-char{i}", T(out[10 + i], 32) != E(lambda e, i=i: ord(e["name"][i]) if i < len(e["name"]) else 0)))
        for i in range(4):
            if 30 + i in out:
                checks.append((f"condition-char{i}", T(out[30 + i], 32) != E(lambda e, i=i: ord(e["cond"][i]) if e["cond"] and i < len(e["cond"]) else 0)))
        for i in range(6):
            if 40 + 3 * i in out:
                for j, nm in enumerate(("kind", "width-or-register", "register-width")):
                    checks.append((f"operand{i}.{nm}", T(out[40 + 3 * i + j], 32) != E(lambda e, i=i, j=j: e["ops"][i][j] if i < len(e["ops"]) else 0)))
        for name, neg in checks:
            res["obligations"] += 1
            r_, m_, dt = X.solve(p.constraints, [neg])
            res["solver_time"] += dt
            if r_ == "unsat":
                res["discharged"] += 1
                if len(res["samples"]) < 3:
                    res["samples"].append({"table": "OPCODES", "field": name, "rust_ir_steps": steps, "negated_post_head": neg.sexpr()[:140]})
            elif r_ == "sat":
                op = m_.eval(b, model_completion=True).as_long()
                res["cex"].append((f"opcode-table|{op:#04x}|{name}", f"OPCODES[{op:#04x}].{name}: Rust table differs from the Python-derived entry {exp.get(op)}",
                                   {"property": "C17", "kind": "tables", "what": "opcode", "opcode": op, "field": name, "expected": {k: v for k, v in exp.get(op, {}).items()}}))
            else:
                res["unknown"] += 1
    # the paths together cover all 16 opcodes of the class
    res["obligations"] += 1
    r_, m_, dt = X.solve([], [z3.Not(z3.Or(*covered))]) if covered else ("sat", None, 0)
    if r_ == "unsat":
        res["discharged"] += 1
    else:
        res["inconclusive"].append(f"opcode-table paths of class {hi:#x}_ do not cover every opcode value")
    return res


def check_opcode_table(res, rep):
    exp, kinds = expected_entries()
    if sorted(exp) != list(range(256)):
        res["cex"].append(("opcode-table|python-table-not-total", f"Python OPCODES defines {len(exp)} of 256 opcodes", {"property": "C17", "kind": "tables", "what": "python-total"}))
    for r in common.pool_map(opcode_class, list(range(16))):
        if "fatal" in r:
            rep.harness_errors.append(f"{r['item']}: {r['fatal']}\n{r.get('tb', '')}")
            continue
        for k in ("paths", "obligations", "discharged", "unknown", "solver_time"):
            res[k] += r[k]
        res["cex"] += r["cex"]
        res["samples"] += r["samples"][:1]
        res["inconclusive"] += r["inconclusive"]
    return exp


def check_python_decoder_names(res, exp):
    """The decoder (opcodes.py classes via opcode_table) must name each opcode as the table entry does."""
    from sc62015.pysc62015.instr.opcode_table import OPCODES

    for opcode, entry in OPCODES.items():
        cls = entry[0] if isinstance(entry, tuple) else entry
        opts = entry[1] if isinstance(entry, tuple) else None
        name = (getattr(opts, "name", None) if opts else None) or cls.__name__
        res["obligations"] += 1
        if name == exp[opcode]["name"]:
            res["discharged"] += 1
        else:
            res["cex"].append((f"decoder-name|{opcode:#04x}", f"decoder name {name} vs table {exp[opcode]['name']}", {"property": "C17", "kind": "tables", "what": "decoder-name", "opcode": opcode}))


def rust_consts():
    from engines.rsym import build, interp

    img, _b = build.image()
    out = {}

    def fn():
        hooks = {"verif_in": lambda m, i: 0, "verif_out": lambda m, i, v: out.__setitem__(i, v), "verif_load": lambda m, a: 0, "verif_store": lambda m, a, v: None}
        m = interp.Machine(img, hooks)
        m.array_mode = True
        m.run(img.mod.functions["harness_consts"], [])
        return m.steps

    explore(fn, max_paths=4)
    return {k: (v if type(v) is int else z3.simplify(v).as_long()) for k, v in out.items()}


def check_registers_and_constants(res):
    import binja_test_mocks.binja_api  # noqa: F401
    from sc62015.pysc62015.instr import opcodes as OP
    from sc62015.pysc62015 import emulator as EM, constants as CT
    from sc62015.arch import SC62015

    rc = rust_consts()
    r = z3.BitVec("reg", 8)  # symbolic register index: every statement below is decided for all registers at once

    def add(name, neg, payload):
        res["obligations"] += 1
        r_, m_, dt = X.solve([], [neg])
        res["solver_time"] += dt
        if r_ == "unsat":
            res["discharged"] += 1
            if len(res["samples"]) < 8:
                res["samples"].append({"table": "registers/constants", "obligation": name, "negated_post_head": neg.sexpr()[:140]})
        elif r_ == "sat":
            res["cex"].append((name, f"{name}: {m_}", dict(payload, property="C17", kind="tables", model=str(m_))))
        else:
            res["unknown"] += 1

    names = list(REG_CODE)
    def tab(f):
        arr = z3.K(z3.BitVecSort(8), bv(0xFFFFFFFF, 32))
        for n in names:
            v = f(n)
            if v is not None:
                arr = z3.Store(arr, bv(REG_CODE[n], 8), bv(v, 32))
        return z3.Select(arr, r)
    valid = z3.ULE(r, 14)
    # widths in bytes: arch.regs, REG_SIZES (decoder), REGISTER_SIZE (emulator), Rust mask_for
    arch_w = tab(lambda n: SC62015.regs[n].size if n in SC62015.regs else None)
    dec_w = tab(lambda n: {str(k): v for k, v in OP.REG_SIZES.items()}.get(n))
    emu_w = tab(lambda n: EM.REGISTER_SIZE.get(getattr(EM.RegisterName, n, None)))
    rust_mask = tab(lambda n: rc.get(100 + REG_CODE[n]))
    none = bv(0xFFFFFFFF, 32)
    bytes_of_mask = z3.If(rust_mask == 0xFF, bv(1, 32), z3.If(rust_mask == 0xFFFF, bv(2, 32), z3.If(z3.Or(rust_mask == 0xFFFFFF, rust_mask == 0xFFFFF), bv(3, 32), z3.If(rust_mask == 1, bv(1, 32), none))))
    add("register-width|arch-vs-emulator", z3.And(valid, arch_w != none, emu_w != none, arch_w != emu_w), {"what": "reg-width"})
    add("register-width|decoder-vs-emulator", z3.And(valid, dec_w != none, emu_w != none, dec_w != emu_w), {"what": "reg-width"})
    add("register-width|rust-vs-emulator", z3.And(valid, emu_w != none, rust_mask != none, bytes_of_mask != emu_w), {"what": "reg-width"})
    add("register-width|rust-mask-is-a-width-mask", z3.And(valid, rust_mask != none, bytes_of_mask == none), {"what": "reg-width"})
    # PC is 20 bits everywhere
    add("pc-width|rust-vs-python", z3.BoolVal(rc.get(100 + REG_CODE["PC"]) != CT.PC_MASK), {"what": "pc-mask"})
    # sub-register layout: arch (full register, offset) vs emulator _SUBREG_INFO (base, shift)
    sub = getattr(EM.Registers, "_SUBREG_INFO", {})
    for n in ("A", "B", "IL", "IH"):
        ai = SC62015.regs[n]
        info = sub.get(getattr(EM.RegisterName, n))
        bad = info is None or str(info[0].name if hasattr(info[0], "name") else info[0]) != ai.name or info[1] != 8 * ai.offset or info[2] != (1 << (8 * ai.size)) - 1
        add(f"sub-register-layout|{n}", z3.BoolVal(bool(bad)), {"what": "subreg", "reg": n})
    # IMEM register offsets: Python enum vs Rust consts
    pairs = {"KOL": 10, "KOH": 11, "KIL": 12, "BP": 13, "PX": 14, "PY": 15, "UCR": 16, "USR": 17, "RXD": 18, "TXD": 19, "IMR": 20, "ISR": 21, "SCR": 22, "LCC": 23, "SSR": 24}
    k = z3.BitVec("imem_reg", 8)
    py_arr, rs_arr = z3.K(z3.BitVecSort(8), bv(0x1FF, 32)), z3.K(z3.BitVecSort(8), bv(0x1FF, 32))
    for i, (nm, ix) in enumerate(pairs.items()):
        py_arr = z3.Store(py_arr, bv(i, 8), bv(int(OP.IMEMRegisters[nm]), 32))
        rs_arr = z3.Store(rs_arr, bv(i, 8), bv(rc[ix], 32))
    add("imem-offsets|python-vs-rust", z3.And(z3.ULT(k, len(pairs)), z3.Select(py_arr, k) != z3.Select(rs_arr, k)), {"what": "imem-offsets", "names": list(pairs)})
    # address-space constants and vectors
    consts = [("INTERNAL_MEMORY_START", CT.INTERNAL_MEMORY_START, rc[0]), ("INTERNAL_SPACE", CT.INTERNAL_MEMORY_LENGTH, rc[4]), ("EXTERNAL_SPACE", CT.ADDRESS_SPACE_SIZE - CT.INTERNAL_MEMORY_LENGTH, rc[3]),
              ("ADDRESS_MASK covers the address space", 1, 1 if rc[1] >= CT.ADDRESS_SPACE_SIZE - 1 else 0), ("INTERNAL_ADDR_MASK", CT.INTERNAL_MEMORY_LENGTH - 1, rc[2]),
              ("reset vector", OP.ENTRY_POINT_ADDR, rc[30]), ("ROM window end", 0x100000, rc[31] + rc[32]), ("system image", 0x100000, rc[33])]
    for nm, a, b_ in consts:
        add(f"constant|{nm}", z3.BoolVal(a != b_), {"what": "constant", "name": nm, "python": a, "rust": b_})
    return rc


def check_views(res):
    import binja_test_mocks.binja_api  # noqa: F401
    from sc62015 import view as V
    from sc62015.pysc62015 import constants as CT

    a = z3.BitVec("addr", 32)
    for cls in (V.SC62015RomView, V.SC62015FullView):
        segs = cls.SEGMENTS
        inside = [z3.And(z3.UGE(a, bv(s.start, 32)), z3.ULT(a, bv(s.start + s.length, 32))) for s in segs]
        n = sum([z3.If(c, bv(1, 8), bv(0, 8)) for c in inside], bv(0, 8))
        checks = [("segments-pairwise-disjoint", z3.UGT(n, 1)), ("segments-inside-address-space", z3.And(z3.Or(*inside), z3.UGE(a, bv(CT.ADDRESS_SPACE_SIZE, 32)))),
                  ("segments-non-empty", z3.BoolVal(any(s.length <= 0 for s in segs)))]
        iram = [s for s in segs if "nternal" in s.name]
        checks.append(("internal-ram-at-lifter-address", z3.BoolVal(len(iram) != 1 or iram[0].start != CT.INTERNAL_MEMORY_START or iram[0].length != CT.INTERNAL_MEMORY_LENGTH)))
        for name, neg in checks:
            res["obligations"] += 1
            r_, m_, dt = X.solve([], [neg])
            res["solver_time"] += dt
            if r_ == "unsat":
                res["discharged"] += 1
            elif r_ == "sat":
                res["cex"].append((f"view|{cls.__name__}|{name}", f"{cls.__name__}: {name} {m_}", {"property": "C17", "kind": "tables", "what": "view", "view": cls.__name__, "check": name, "model": str(m_)}))
            else:
                res["unknown"] += 1


def main(tier):
    t0 = time.time()
    X.setup()
    rep = common.Report("C17")
    from engines.rsym import build

    build.ensure_built()
    res = {"paths": 0, "obligations": 0, "discharged": 0, "unknown": 0, "cex": [], "solver_time": 0.0, "samples": [], "inconclusive": []}
    exp = check_opcode_table(res, rep)
    check_python_decoder_names(res, exp)
    check_registers_and_constants(res)
    check_views(res)
    for key, summary, payload in res["cex"]:
        payload["key"] = key
        rep.counterexample(key, payload, summary)
    if res["obligations"] < 300:
        rep.harness_errors.append(f"vacuity guard: only {res['obligations']} obligations")
    if res["unknown"] or res["inconclusive"]:
        rep.harness_errors.append(f"inconclusive: {res['unknown']} {res['inconclusive'][:3]}")
    code = rep.finish()
    wall = time.time() - t0
    coverage = {
        "obligations": res["obligations"], "discharged": res["discharged"], "evaluations": res["paths"], "distinct_nontrivial": 256,
        "rule": "all 256 opcode entries (symbolic index), all register names, all listed constants, both view classes",
        "samples": res["samples"][:8], "checker_cmd": "./check C17 --tier " + tier,
        "trusted_base": ["z3 5.1.0", "engines/rsym", "scripts/generate_llama_opcodes.py (the repository's Python->Rust table mapping) as the statement of what 'the same entry' means"],
        "explanation": "The Rust static OPCODES table is read out of the crate's LLVM IR by one symbolic execution of harness_opcode_entry with the opcode byte symbolic; z3 decides field-by-field equality with the entry derived from the Python table for all 256 opcodes. Register widths (arch.py, decoder, emulator, Rust mask_for) are compared over a symbolic register index, IMEM offsets over a symbolic register number, address-space constants and vectors one by one; view segment disjointness/containment is decided over an arbitrary 32-bit address.",
        "solver_time_s": round(res["solver_time"], 2),
        "functions_encoded": ["Rust (LLVM IR): static sc62015_core::llama::opcodes::OPCODES via harness_opcode_entry; mask_for; pub consts of memory.rs / pce500.rs via harness_consts",
                              "Python: sc62015.pysc62015.instr.opcode_table.OPCODES, opcodes.REGISTERS/REG_SIZES/IMEMRegisters/ENTRY_POINT_ADDR, emulator.REGISTER_SIZE/Registers._SUBREG_INFO, constants.*, sc62015.arch.SC62015.regs, sc62015.view.*.SEGMENTS"],
        "bounds": {"finite": "the data are finite; every entry is compared (no sampling)",
                   "outside": "private Rust constants (INTERRUPT_VECTOR_ADDR / ROM_RESET_VECTOR_ADDR in eval.rs and lib.rs) are not readable as data; their behaviour is compared in C06 (IR, RESET; known finding F15). Operand *decoding* agreement beyond the table is C06's subject"},
    }
    assumptions = ["'same entry' for the opcode table is defined by the repository's generator mapping (scripts/generate_llama_opcodes.py)"]
    common.write_evidence("C17", tier, "other", coverage, assumptions, wall, len(rep.violations))
    print(f"C17 {tier}: paths={res['paths']} obligations={res['obligations']} discharged={res['discharged']} cex={len(res['cex'])} solver={res['solver_time']:.1f}s wall={wall:.1f}s")
    return code
