"""Concrete replay for C09 counterexamples (clean interpreter, unmodified code, real numerals, real bincopy)."""
from __future__ import annotations

import re


def to_text(tokens):
    out = []
    for t in tokens:
        n = type(t).__name__
        if n == "TInt":
            v = t.value
            sign = ""
            if v[:1] in "+-":
                sign, v = v[0], v[1:]
            out.append(sign + "0x" + v)
        elif n == "TAddr":
            out.append("0x%05X" % t.value)
        else:
            out.append(str(t))
    return "".join(out)


def _il(instr, addr):
    from binja_test_mocks.mock_llil import MockLowLevelILFunction

    il = MockLowLevelILFunction()
    instr.lift(il, addr)
    return re.sub(r"0x[0-9a-f]+>", ">", repr(il.ils))


def outcome(data, addr):
    """-> (kind, detail) of the first failing obligation, or ("ok", ...)."""
    from sc62015.pysc62015.instr import decode, OPCODES
    from sc62015.pysc62015.sc_asm import Assembler
    from binja_test_mocks.tokens import asm_str

    def asm(text):
        src = (f".ORG 0x{addr:05X}\n" if addr else "") + text + "\n"
        bf = Assembler().assemble(src)
        segs = [(s.address, bytes(s.data)) for s in bf.segments]
        return segs

    i = decode(data, addr, OPCODES)
    if i is None:
        return "not-decodable", ""
    L = i.length()
    text = to_text(i.render())
    try:
        segs = asm(text)
    except Exception as e:  # noqa: BLE001
        return "asm-rejects", f"{text!r}: {str(e)[:120]}"
    if len(segs) != 1 or segs[0][0] != addr:
        return "asm-layout", str([(hex(a), b.hex()) for a, b in segs])
    out1 = segs[0][1]
    try:
        i2 = decode(out1, addr, OPCODES)
    except AssertionError:
        i2 = None
    if i2 is None:
        return "redecode-rejects", out1.hex()
    if i2.length() != len(out1):
        return "emitted-length-differs", f"{out1.hex()} decoder consumes {i2.length()}"
    if asm_str(i2.render()) != asm_str(i.render()):
        return "text-differs", f"{asm_str(i.render())!r} -> {out1.hex()} -> {asm_str(i2.render())!r}"
    if len(out1) == L and _il(i, addr) != _il(i2, addr):
        return "il-differs", f"{data[:L].hex()} vs {out1.hex()}"
    try:
        segs2 = asm(to_text(i2.render()))
    except Exception as e:  # noqa: BLE001
        return "second-round-rejects", str(e)[:120]
    if len(segs2) != 1 or len(segs2[0][1]) != len(out1):
        return "second-round-length", str([(hex(a), b.hex()) for a, b in segs2])
    if segs2[0][1] != out1:
        return "second-round-differs", f"{out1.hex()} vs {segs2[0][1].hex()}"
    return "ok", f"{text!r} -> {out1.hex()}"


def replay(rec):
    data = bytes(rec["bytes"])
    kind, detail = outcome(data, rec["addr"])
    want = rec["obligation"].split(":")[0]
    print(f"bytes {data.hex()} at {rec['addr']:#x}: {kind} {detail} (expected {want})")
    return kind == want
