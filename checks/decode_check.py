"""C01 / C02: the decoder and its consumers over symbolic byte strings.

One symbolic run per (prefix bytes, opcode byte, buffer length, tail choice); all
other bytes and the address are symbolic.  The real arch hooks
(SC62015.get_instruction_info/_text/_low_level_il), the real decode()/encode()
and the emulator's fetch path are executed; z3 decides the obligations.
"""
from __future__ import annotations

import re
import sys
import time
import traceback

import z3

from . import common
from . import isa_exec as X
from engines.pysym import core
from engines.pysym.core import SymInt, explore
from engines.pysym.containers import SymBytes

_HANDLE = re.compile(r"⟦\d+:[^⟧]*⟧")
EXPECTED_REJECTS = ()  # exceptions the hooks are documented to turn into None are handled inside the hooks

QUICK_TAILS = [0x00, 0x56, 0xE3, 0x32, 0x20, 0x90, 0xFD, 0x5E, 0xF0]


def tok_parts(tokens, handles):
    """Token stream -> list of comparable parts (python constants or z3 terms)."""
    parts = []
    for t in tokens:
        parts.append(type(t).__name__)
        val = getattr(t, "value", None)
        if val is None:
            parts.append(str(getattr(t, "mem_type", "")))
            continue
        if type(val) is SymInt:
            parts.append(z3.simplify(val.t))
            continue
        if not isinstance(val, str):
            parts.append(val)
            continue
        pos = 0
        for m in _HANDLE.finditer(val):
            parts.append(val[pos : m.start()])
            h = handles.get(m.group(0))
            parts.append(("h", m.group(0).split(":")[1][:-1], z3.simplify(h.t)))
            pos = m.end()
        parts.append(val[pos:])
    return parts


def parts_equal_term(a, b):
    """-> z3 Bool (or python bool) saying two part lists denote the same text."""
    if len(a) != len(b):
        return False
    conj = []
    for x, y in zip(a, b):
        xz = isinstance(x, tuple) or z3.is_expr(x)
        yz = isinstance(y, tuple) or z3.is_expr(y)
        if xz != yz:
            # a term on one side, a plain integer on the other (the same operand once symbolic, once already concrete)
            t, c = (x, y) if xz else (y, x)
            if z3.is_expr(t) and isinstance(c, int) and not isinstance(c, bool) and z3.is_bv(t):
                conj.append(t == z3.BitVecVal(c, t.size()))
                continue
            return False
        if not xz:
            if x != y:
                return False
            continue
        if isinstance(x, tuple) != isinstance(y, tuple):
            return False
        if isinstance(x, tuple):
            if x[1] != y[1]:
                return False
            conj.append(x[2] == y[2])
        else:
            conj.append(x == y)
    return z3.And(*conj) if conj else True


def il_parts(ils, out=None):
    """Structural flattening of lifted IL (MockLLIL trees) with terms at the leaves."""
    if out is None:
        out = []
    for node in ils:
        _il_node(node, out)
    return out


def _il_node(node, out):
    from binja_test_mocks.mock_llil import MockLLIL

    if type(node) is SymInt:
        out.append(z3.simplify(node.t))
        return
    if isinstance(node, MockLLIL) or hasattr(node, "ops"):
        out.append(type(node).__name__)
        out.append(str(getattr(node, "op", "")))
        name = getattr(node, "name", None)
        if isinstance(name, str):
            out.append(name)
        for o in node.ops:
            _il_node(o, out)
        out.append(")")
        return
    if isinstance(node, (list, tuple)):
        for o in node:
            _il_node(o, out)
        return
    if type(node).__name__ == "LowLevelILLabel":
        out.append("label")
        return
    if hasattr(node, "name") and type(node).__name__ in ("MockReg", "MockFlag"):
        out.append(f"{type(node).__name__}:{node.name}")
        return
    out.append(node if isinstance(node, (int, str, bool, type(None))) else repr(type(node)))


def run_class(item):
    prop, tier, (pre_bytes, opcode, L, tail0, b2set) = item
    X.setup()
    t0 = time.time()
    key = f"{''.join('%02X' % p for p in pre_bytes) or '--'}:{opcode:02X}:L{L}:t{'--' if tail0 is None else '%02X' % tail0}"
    res = {"key": key, "paths": 0, "accepted": 0, "rejected": 0, "obligations": 0, "discharged": 0, "unknown": 0,
           "inconclusive": [], "cex": [], "solver_time": 0.0, "samples": [], "mnemonics": {}}
    from sc62015.arch import SC62015
    from sc62015.pysc62015.instr import decode, encode, OPCODES
    from sc62015.pysc62015.emulator import Emulator, _FallbackInstruction
    from binja_test_mocks.mock_llil import MockLowLevelILFunction
    from binja_test_mocks.eval_llil import Memory
    from engines.pysym.machine import SymMemory

    arch = SC62015.__new__(SC62015)
    head = list(pre_bytes) + [opcode]
    nsym = L - len(head)
    if nsym < 0:
        head = head[:L]
        nsym = 0

    def consumers(data, addr, tag):
        """Run the three arch hooks; any exception escaping a hook is recorded."""
        out = {}
        for name in ("info", "text", "llil"):
            try:
                if name == "info":
                    r = arch.get_instruction_info(data, addr)
                    out[name] = None if r is None else ("ok", r.length, r)
                elif name == "text":
                    r = arch.get_instruction_text(data, addr)
                    out[name] = None if r is None else ("ok", r[1], r[0])
                else:
                    il = MockLowLevelILFunction()
                    r = arch.get_instruction_low_level_il(data, addr, il)
                    out[name] = None if r is None else ("ok", r, il)
            except core.PysymAbort:
                raise
            except Exception as e:  # noqa: BLE001
                out[name] = ("exc", type(e).__name__, str(e)[:120])
        return out

    def fn():
        eng = core.engine()
        obytes = [SymInt.var(f"b{i + 1}", 8) for i in range(nsym)]
        body = head + obytes
        if b2set is not None and obytes:
            eng.assume(z3.Or(*[obytes[0].t == core._bv(v) for v in b2set]))
        if len(obytes) >= 2:
            nv = X.named_values()
            isn = [z3.Or(*[b.t == core._bv(v) for v in nv]) for b in obytes]
            eng.assume(z3.AtMost(*isn, 0 if tail0 is not None else 1))
        addr = SymInt.var("addr", 20)
        data = SymBytes(body)
        obs = {"obytes": obytes, "addr": addr, "body": body, "checks": []}
        chk = obs["checks"]
        c = consumers(data, addr, "a")
        obs["consumers"] = c
        for name, r in c.items():
            if r is not None and r[0] == "exc":
                chk.append(("unexpected-exception:" + name + ":" + r[1], z3.BoolVal(True), r[2]))
        info, text, llil = c["info"], c["text"], c["llil"]
        # plain decode for structure
        try:
            instr = decode(SymBytes(body), addr, OPCODES)
        except AssertionError:
            instr = None
        obs["accepted"] = info is not None and info[0] == "ok"
        if instr is not None:
            ln = instr.length()
            obs["len"] = ln
            obs["mn"] = instr.name()
            if not (1 <= ln <= L):
                chk.append(("length-out-of-range", z3.BoolVal(True), f"len={ln} supplied={L}"))
        if obs["accepted"]:
            ln = info[1]
            # info accepts => text and llil accept with the same length
            if text is None or text[0] != "ok":
                chk.append(("info-accepts-text-rejects", z3.BoolVal(True), ""))
            elif text[1] != ln:
                chk.append(("length-differs:text", z3.BoolVal(True), f"{text[1]} vs {ln}"))
            if llil is None or llil[0] != "ok":
                chk.append(("info-accepts-llil-rejects", z3.BoolVal(True), ""))
            elif llil[1] != ln:
                chk.append(("length-differs:llil", z3.BoolVal(True), f"{llil[1]} vs {ln}"))
            if text is not None and text[0] == "ok" and instr is not None:
                shown = str(text[2][0].text)
                if shown.strip() != instr.name():
                    chk.append(("mnemonic-differs:text", z3.BoolVal(True), f"{shown!r} vs {instr.name()!r}"))
            # emulator fetch path: same bytes in memory (followed by NOPs)
            base = 0x040000
            mem = SymMemory("Mf", base, body[:ln] + [0] * 8)
            emu = Emulator(Memory(mem.read, mem.write), reset_on_init=False)
            try:
                ei = emu.decode_instruction(base)
                if isinstance(ei, _FallbackInstruction):
                    chk.append(("info-accepts-emulator-rejects", z3.BoolVal(True), ""))
                else:
                    if ei.length() != ln:
                        chk.append(("length-differs:emulator", z3.BoolVal(True), f"{ei.length()} vs {ln}"))
                    if instr is not None and ei.name() != instr.name():
                        chk.append(("mnemonic-differs:emulator", z3.BoolVal(True), f"{ei.name()} vs {instr.name()}"))
            except core.PysymAbort:
                raise
            except Exception as e:  # noqa: BLE001
                chk.append(("unexpected-exception:emulator:" + type(e).__name__, z3.BoolVal(True), str(e)[:120]))

            toks = instr.render()
            p0 = tok_parts(toks, eng.handles)
            # ---- C02: encode is the inverse of decode
            try:
                enc = encode(instr, addr)
                eq = SymBytes(list(enc)) == SymBytes(body[:ln])
                eqt = eq.t if isinstance(eq, core.SymBool) else z3.BoolVal(bool(eq))
                chk.append(("C02:encode-differs", z3.Not(eqt), ""))
                instr2 = decode(SymBytes(list(enc)), addr, OPCODES)
                if instr2 is None:
                    chk.append(("C02:re-decode-rejects", z3.BoolVal(True), ""))
                else:
                    if instr2.length() != ln:
                        chk.append(("C02:re-decode-length", z3.BoolVal(True), f"{instr2.length()} vs {ln}"))
                    p2 = tok_parts(instr2.render(), eng.handles)
                    e2 = parts_equal_term(p0, p2)
                    chk.append(("C02:re-decode-text", z3.Not(e2) if z3.is_expr(e2) else z3.BoolVal(not e2), ""))
                    il1, il2 = MockLowLevelILFunction(), MockLowLevelILFunction()
                    instr.lift(il1, addr)
                    instr2.lift(il2, addr)
                    e3 = parts_equal_term(il_parts(il1.ils), il_parts(il2.ils))
                    chk.append(("C02:re-decode-il", z3.Not(e3) if z3.is_expr(e3) else z3.BoolVal(not e3), ""))
                # stream view: decoding another instruction of the same opcode (other operand bytes) in between must not
                # change what the first instruction encodes to (operand templates / caches shared between decodes)
                if prop == "C02" and obytes:
                    try:
                        decode(SymBytes(head + [b ^ 0x5A for b in obytes]), addr, OPCODES)
                    except AssertionError:
                        pass
                    enc3 = encode(instr, addr)
                    eq3 = SymBytes(list(enc3)) == SymBytes(body[:ln])
                    chk.append(("C02:encode-differs-after-another-decode", z3.Not(eq3.t if isinstance(eq3, core.SymBool) else z3.BoolVal(bool(eq3))), ""))
            except core.PysymAbort:
                raise
            except Exception as e:  # noqa: BLE001
                chk.append(("C02:unexpected-exception:" + type(e).__name__, z3.BoolVal(True), str(e)[:120]))
            if text is None:
                chk.append(("C02:text-demotes-valid-instruction", z3.BoolVal(True), ""))

            # ---- C01: trailing-byte independence and aliasing with later decodes
            if tail0 is not None:
                tail = [tail0] + [SymInt.var(f"t{i + 1}", 8) for i in range(5)]
                c2 = consumers(SymBytes(body[:ln] + tail), addr, "b")
                for name, r in c2.items():
                    if r is not None and r[0] == "exc":
                        chk.append(("tail:unexpected-exception:" + name + ":" + r[1], z3.BoolVal(True), r[2]))
                i2 = c2["info"]
                if i2 is None:
                    chk.append(("tail:info-rejects", z3.BoolVal(True), f"tail0={tail0:02X}"))
                elif i2[0] == "ok" and i2[1] != ln:
                    chk.append(("tail:length-changes", z3.BoolVal(True), f"{i2[1]} vs {ln}"))
                t2 = c2["text"]
                if t2 is not None and t2[0] == "ok" and text is not None and text[0] == "ok":
                    pa = [x.text for x in text[2]]
                    pb = [x.text for x in t2[2]]
                    # InstructionTextToken texts carry handles; compare through the handle table
                    e4 = parts_equal_term(_text_parts(pa, eng.handles), _text_parts(pb, eng.handles))
                    chk.append(("tail:text-changes", z3.Not(e4) if z3.is_expr(e4) else z3.BoolVal(not e4), ""))
                # a second instruction of the same opcode decoded afterwards must not alias the first
                ybytes = [SymInt.var(f"y{i + 1}", 8) for i in range(nsym)]
                other = head + ybytes
                if b2set is not None and ybytes:
                    eng.assume(z3.Or(*[ybytes[0].t == core._bv(v) for v in b2set]))
                try:
                    decode(SymBytes(other), addr, OPCODES)
                except AssertionError:
                    pass
                p1 = tok_parts(instr.render(), eng.handles)
                e5 = parts_equal_term(p0, p1)
                chk.append(("history:earlier-result-changed", z3.Not(e5) if z3.is_expr(e5) else z3.BoolVal(not e5), ""))
        else:
            # info rejects: text/IL may still render an unfused PRE (not asserted); the emulator's
            # fetch path must still not fail (it falls back to a one-byte placeholder)
            if L >= 1:
                base = 0x040000
                mem = SymMemory("Mf", base, body + [0] * 8)
                emu = Emulator(Memory(mem.read, mem.write), reset_on_init=False)
                try:
                    emu.decode_instruction(base)
                except core.PysymAbort:
                    raise
                except Exception as e:  # noqa: BLE001
                    chk.append(("unexpected-exception:emulator-rejected:" + type(e).__name__, z3.BoolVal(True), str(e)[:120]))
        return obs

    try:
        paths, stats = explore(fn, max_paths=20000, timeout_ms=20000)
    except core.PathLimit as e:
        res["inconclusive"].append(str(e))
        return res
    res["paths"] = len(paths)
    res["solver_time"] += stats.solver_time
    for p in paths:
        if p.status == "inconclusive":
            res["inconclusive"].append(p.detail[:100])
            continue
        if p.status == "exception":
            res["cex"].append({"key": f"harness-exception|{type(p.exc).__name__}", "summary": f"{key}: {p.exc!r}"[:200], "payload": None})
            continue
        v = p.value
        if v["accepted"]:
            res["accepted"] += 1
            mn = v.get("mn", "?")
            res["mnemonics"][mn] = res["mnemonics"].get(mn, 0) + 1
        else:
            res["rejected"] += 1
        for (name, neg, detail) in v["checks"]:
            is_c02 = name.startswith("C02:")
            if (prop == "C02") != is_c02:
                continue
            res["obligations"] += 1
            r, m, dt = X.solve(p.constraints, [neg])
            res["solver_time"] += dt
            if r == "unsat":
                res["discharged"] += 1
                if not res["samples"]:
                    res["samples"].append({"class": key, "obligation": name, "mnemonic": v.get("mn"), "negated_post_head": neg.sexpr()[:120]})
            elif r == "sat":
                ev = lambda t: m.eval(t, model_completion=True).as_long()  # noqa: E731
                body = [b if isinstance(b, int) else ev(core.term_of(b, 8)) for b in v["body"]]
                tailv = None
                if tail0 is not None:
                    tailv = [tail0] + [ev(z3.BitVec(f"t{i + 1}", 8)) for i in range(5)]
                other = [b if isinstance(b, int) else None for b in head] + [ev(z3.BitVec(f"y{i + 1}", 8)) for i in range(nsym)]
                payload = {"property": prop, "kind": "decode", "key": name, "class": key, "bytes": body, "addr": ev(core.term_of(v["addr"], 20)),
                           "tail": tailv, "other": other, "obligation": name, "detail": detail, "mnemonic": v.get("mn")}
                fam = name.split(":")[0] + ":" + (name.split(":")[1] if ":" in name else "")
                res["cex"].append({"key": f"{v.get('mn', '?')}|{name}", "summary": f"{key} {detail}", "payload": payload})
            else:
                res["unknown"] += 1
    res["wall"] = time.time() - t0
    return res


def _text_parts(strs, handles):
    parts = []
    for val in strs:
        pos = 0
        for m in _HANDLE.finditer(val):
            parts.append(val[pos : m.start()])
            h = handles.get(m.group(0))
            parts.append(("h", m.group(0).split(":")[1][:-1], z3.simplify(h.t)))
            pos = m.end()
        parts.append(val[pos:])
    return parts


def classes(prop, tier):
    """(prefix bytes, opcode, L, tail0, b2 constraint).  For every opcode the concrete probe
    of the real decoder says which second bytes give which length; a class fixes the
    length n (second byte constrained to that group) so that no unconstrained symbolic
    byte is left inside the buffer for the decoder's look-ahead to hash."""
    pr = X.structure_probe()
    out = []
    if tier == "quick":
        prefix_sets = [(), (0x23,), (0x32,), (0x30, 0x21)]
    else:
        prefix_sets = [()] + [(p,) for p in X.PRE_BYTES] + [(0x30, 0x21), (0x32, 0x32), (0x25, 0x36)]
    for ps in prefix_sets:
        for op in range(256):
            if op in X.PRE_BYTES:
                # a PRE byte in opcode position is covered by the prefix sets (sister opcode concrete);
                # here only the lone / doubled prefix byte with nothing behind it
                out.append((ps, op, len(ps) + 1, None, None))
                continue
            by_len = pr.get(op) or {}
            if not by_len:
                by_len = {1: list(range(256))}
            for n0, b2s in sorted(by_len.items()):
                n = n0 + len(ps)
                b2 = None if len(by_len) == 1 and len(b2s) == 256 else tuple(b2s)
                # (A) the whole class, no tail: consumer agreement, C02 round trip
                out.append((ps, op, n, None, b2))
                if prop == "C02":
                    continue
                # (B) trailing-byte / history independence: one structural representative of the
                # first instruction (operand values stay symbolic), the tail's first byte from a set
                if tier == "quick":
                    tl = QUICK_TAILS[:2] if not ps else []
                else:
                    # sized by wall time (16 cores, about half an hour): all tails without a prefix, two behind a single PRE byte,
                    # every possible first tail byte behind NOP
                    tl = QUICK_TAILS if not ps else (QUICK_TAILS[:2] if len(ps) == 1 else [])
                    if not ps and op == 0x00:
                        tl = list(range(256))
                rep = (b2s[len(b2s) // 2],) if b2 is not None else None
                for t in tl:
                    out.append((ps, op, n, t, rep))
                # truncated buffers
                for L in ([n - 1] if tier == "quick" else range(0, n)):
                    if L >= 0:
                        out.append((ps, op, L, None, b2 if L >= len(ps) + 2 else None))
            bad = sorted(set(range(256)) - {b for v in by_len.values() for b in v})
            if bad and prop == "C01" and (tier == "thorough" or not ps):
                L = max(by_len) + len(ps)
                out.append((ps, op, L, None, tuple(bad)))
    return out


def main(prop, tier):
    t0 = time.time()
    X.setup()
    rep = common.Report(prop)
    items = [(prop, tier, c) for c in classes(prop, tier)]
    results = common.pool_map(run_class, items, chunksize=4)
    tot = {k: 0 for k in ("paths", "accepted", "rejected", "obligations", "discharged", "unknown")}
    solver_time = 0.0
    inconcl, samples, mns = [], [], {}
    cex_by_key = {}
    for r in results:
        if "fatal" in r:
            rep.harness_errors.append(f"{r['item']}: {r['fatal']}\n{r.get('tb', '')}")
            continue
        for k in tot:
            tot[k] += r[k]
        solver_time += r["solver_time"]
        inconcl += [f"{r['key']}: {x}" for x in r["inconclusive"]]
        for s, c in r["mnemonics"].items():
            mns[s] = mns.get(s, 0) + c
        if r["samples"] and len(samples) < 10:
            samples += r["samples"]
        for c in r["cex"]:
            cex_by_key.setdefault(c["key"], c)
    for key, c in sorted(cex_by_key.items()):
        if c["payload"] is None:
            rep.harness_errors.append(f"{key}: {c['summary']}")
        else:
            rep.counterexample(key, c["payload"], c["summary"])
    n_incon = len(inconcl) + tot["unknown"]
    floor = 500 if tier == "quick" else 3000
    if tot["obligations"] < floor:
        rep.harness_errors.append(f"vacuity guard: only {tot['obligations']} obligations (< {floor})")
    if n_incon > 0.05 * max(1, tot["obligations"]):
        rep.harness_errors.append(f"too many inconclusive: {n_incon}: {inconcl[:5]}")
    code = rep.finish()
    wall = time.time() - t0
    coverage = {
        "programs": len(items),
        "disagreements_checked": rep.nreplay,
        "obligations": tot["obligations"],
        "discharged": tot["discharged"],
        "inconclusive": n_incon,
        "evaluations": tot["paths"],
        "distinct_nontrivial": len(mns),
        "rule": "one symbolic run per (prefix bytes, opcode, buffer length, first tail byte); non-trivial = info hook accepts; distinct = distinct mnemonics among accepted paths",
        "samples": samples[:8],
        "paths": tot,
        "solver_time_s": round(solver_time, 2),
        "inconclusive_details": inconcl[:20],
        "functions_encoded": [
            "sc62015.arch.SC62015.get_instruction_info/get_instruction_text/get_instruction_low_level_il",
            "sc62015.pysc62015.instr.opcodes.decode/iter_decode/fusion/create_instruction/encode and every Operand.decode/encode/render/lift",
            "sc62015.pysc62015.instr.instructions.* (analyze, lift, PRE.fuse, ExchangeInstruction.encode)",
            "sc62015.pysc62015.emulator.Emulator.decode_instruction, cached_decoder.CachedFetchDecoder",
        ],
        "bounds": {
            "byte_strings": "prefix bytes + opcode concrete per class, every other byte symbolic; buffer lengths per class incl. truncated",
            "tail": "first tail byte from a fixed set per tier (the decoder hashes it), remaining 5 tail bytes symbolic",
            "address": "symbolic 20 bit",
            "history": "one later decode of the same opcode with independent symbolic bytes",
        },
        "known_findings_hit": {k: len(v) for k, v in rep.known_hits.items()},
    }
    assumptions = [
        "stubs: struct.unpack_from/pack_into (formats B,H) and bytearray replaced by term-preserving equivalents inside binja_test_mocks.coding / cached_decoder",
        "binja_test_mocks is the Binary Ninja API (mock) the hooks run against",
        "info-rejects / text-accepts (unfused PRE rendered as PREnn) is not asserted: the property only requires info-accepts => others accept",
    ]
    common.write_evidence(prop, tier, "translation_validation" if prop == "C02" else "exploration", coverage, assumptions, wall, len(rep.violations))
    print(f"{prop} {tier}: classes={len(items)} paths={tot['paths']} accepted={tot['accepted']} obligations={tot['obligations']} discharged={tot['discharged']} "
          f"inconclusive={n_incon} cex_classes={len(cex_by_key)} solver={solver_time:.1f}s wall={wall:.1f}s")
    return code
