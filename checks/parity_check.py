"""C06: the Rust LLAMA core and the Python core agree on every instruction.

Translation validation per encoding class: the real Python ``Emulator.execute_instruction``
(pysym) and the real Rust ``LlamaExecutor::execute`` (rsym: LLVM IR of the crate, see
engines/rsym) are executed on the *same* z3 variables (registers, flags, operand bytes, one
shared memory array); for every pair of compatible paths z3 decides equality of the
architectural post-state, of the whole memory (extensionality over a fresh address) and of
the consumed length.
"""
from __future__ import annotations

import sys
import os
import time

import z3

from . import common
from . import isa_exec as X
from engines.pysym import core
from engines.pysym.core import explore

REG_ORDER = ["BA", "I", "X", "Y", "U", "S", "PC", "F"]
REG_BITS = {"BA": 16, "I": 16, "X": 20, "Y": 20, "U": 20, "S": 20, "PC": 20, "F": 8}


def rust_paths(code, assumptions, entry="harness_execute", extra_inputs=None, deadline_s=120):
    """Explore the Rust harness under the given assumptions. code: list of int / z3 BV8 at PC0."""
    from engines.rsym import build, interp

    img, _b = build.image()
    mod = img.mod
    pc0 = X.PC0
    ncode = len(code)

    def fn():
        st = {"M": z3.Array("M", z3.BitVecSort(32), z3.BitVecSort(8)), "written": False}
        out = {}

        def vin(m, i):
            if i < 8:
                name = REG_ORDER[i]
                if name == "PC":
                    return pc0
                return z3.ZeroExt(32 - REG_BITS[name], z3.BitVec("r_" + name, REG_BITS[name]))
            if extra_inputs and i in extra_inputs:
                return extra_inputs[i]
            return 0

        def vload(m, a):
            if type(a) is int and pc0 <= a < pc0 + ncode and not st["written"]:
                return code[a - pc0]
            t = z3.Select(st["M"], interp.to_term(a, 32))
            ts = z3.simplify(t)
            return ts.as_long() if z3.is_bv_value(ts) else t

        def vstore(m, a, v):
            st["written"] = True
            st["M"] = z3.Store(st["M"], interp.to_term(a, 32), interp.to_term(v, 8))

        hooks = {"verif_in": vin, "verif_out": lambda m, i, v: out.__setitem__(i, v), "verif_load": vload, "verif_store": vstore}
        m = interp.Machine(img, hooks)
        panic = None
        ret = None
        try:
            ret = m.run(mod.functions[entry], [])
        except interp.RustPanic as e:
            panic = str(e)[:120]
        return {"ret": ret, "out": out, "mem": st["M"], "steps": m.steps, "panic": panic}

    return explore(fn, max_paths=4000, assumptions=assumptions, deadline_s=deadline_s)


def classes(tier):
    from .isa_check import probe, imem_opcodes, HEAVY

    pr = probe()
    prefixes = [None, 0x25, 0x36, 0x33] if tier == "quick" else [None] + X.PRE_BYTES
    out = []
    im = imem_opcodes()
    for p in prefixes:
        for op in range(256):
            if op in X.PRE_BYTES:
                continue
            if p is not None and op not in im:
                continue  # a prefix is only run where it can matter (an internal-memory operand exists), as in C03/C04
            by_len = pr.get(op, {})
            for ln, b2s in sorted(by_len.items()):
                n = ln + (1 if p is not None else 0)
                b2 = None if len(by_len) == 1 and len(b2s) == 256 else tuple(b2s)
                out.append((p, op, n, b2))
    out.sort(key=lambda c: 0 if c[1] in HEAVY else 1)
    return out


def _t(v, bits):
    from engines.rsym import interp

    return interp.to_term(v, bits)


def run_class(item):
    if len(item) > 3 and item[3] is not None:
        # same class at another (page-edge) address: PC0 is a module global of the executor, switched for this item only
        saved = X.PC0
        X.PC0 = item[3]
        try:
            r = run_class(item[:3])
        finally:
            X.PC0 = saved
        r["key"] += f"@{item[3]:05X}"
        for c in r["cex"]:
            c["key"] += "|page-edge"
        return r
    tier, (prefix, opcode, n, b2) = item[:2]
    domain = item[2] if len(item) > 2 else "documented"
    X.setup()
    t0 = time.time()
    N = 2 if tier == "quick" else 3
    key = f"{'--' if prefix is None else '%02X' % prefix}:{opcode:02X}:n{n}"
    res = {"key": key, "py_paths": 0, "rs_paths": 0, "pairs": 0, "obligations": 0, "discharged": 0, "unknown": 0, "cex": [], "solver_time": 0.0,
           "samples": [], "inconclusive": [], "mnemonics": {}, "rs_steps": 0}
    try:
        paths, stats = X.run_paths(prefix, opcode, n, b2_set=b2, N=N, temps="zero", named_limit=0, render=(domain in ("documented", "edge")), max_paths=4000,
                                   deadline_s=120 if tier == "quick" else 600)
    except core.PathLimit as e:
        res["inconclusive"].append(f"python: {e}")
        return res
    res["solver_time"] += stats.solver_time
    for p in paths:
        if p.status == "inconclusive":
            res["inconclusive"].append("python: " + p.detail[:100])
            continue
        if p.status == "exception":
            res["cex"].append({"key": f"{key}|harness-exception", "summary": repr(p.exc)[:160], "payload": None})
            continue
        v = p.value
        if v["kind"] != "exec":
            continue  # not a valid encoding of this length: outside the property
        res["py_paths"] += 1
        mn = v["mn"]
        res["mnemonics"][mn] = res["mnemonics"].get(mn, 0) + 1
        # documented domain (as for C04): every access of the Python core stays inside the address space
        # 0x000000..0x1000FF, BCD instructions see valid BCD digits.  Outside it the documentation defines
        # nothing; the cores are compared there by the thorough tier's "full domain" pass.
        from engines.pysym.machine import MemoryRangeError

        if domain in ("documented", "edge"):
            if isinstance(v.get("exc"), MemoryRangeError):
                res["out_of_domain"] = res.get("out_of_domain", 0) + 1
                continue
            from specs.isa import SpecUnsupported

            import specs.isa as _isa

            _isa.PAGE_ASSUME = domain != "edge"  # page-edge classes: the spec's "same page" assumption is exactly what is lifted
            undocumented_same_reg = False
            same_reg = False
            try:
                specs = X.build_specs(v, N, opcode)
            except SpecUnsupported as e_:
                if "is also the data register" in str(e_) and os.environ.get("VERIF_C06_SAMEREG", "1") == "1":
                    # MV r,[r++] / MV r,[--r] / MV [r++],r ...: the documentation leaves the order open, but the two cores must still
                    # agree with each other; compared without spec assumptions (addresses in range only)
                    specs = []
                    undocumented_same_reg = True
                    same_reg = True
                else:
                    res["out_of_domain"] = res.get("out_of_domain", 0) + 1
                    continue
            finally:
                _isa.PAGE_ASSUME = True
            dom = [z3.Or(*[z3.And(*st_.assume) if st_.assume else z3.BoolVal(True) for st_ in specs])] if specs else []
            for (kind_, a_, val_) in v["log"]:
                if not isinstance(a_, int):
                    dom.append(z3.ULT(core.term_of(a_, 64), z3.BitVecVal(0x100100, 64)))
            dterm = z3.And(*dom)
            rr0, _m0, dt0 = X.solve(p.constraints, [dterm])
            res["solver_time"] += dt0
            if rr0 != "sat":
                res["out_of_domain"] = res.get("out_of_domain", 0) + 1
                continue
            pcons = list(p.constraints) + [dterm]
        else:
            pcons = list(p.constraints)
            same_reg = False
        code = ([prefix] if prefix is not None else []) + [opcode] + [core.term_of(b, 8) for b in v["obytes"]] + [0] * 8
        code = [c if isinstance(c, int) else z3.simplify(c) for c in code]
        code = [c.as_long() if (not isinstance(c, int) and z3.is_bv_value(c)) else c for c in code]
        try:
            rpaths, rstats = rust_paths(code, pcons, deadline_s=120 if tier == "quick" else 600)
        except core.PathLimit as e:
            res["inconclusive"].append(f"rust: {e}")
            continue
        res["solver_time"] += rstats.solver_time
        py_exc = v.get("exc")
        impl = X._impl_post(v)
        x = z3.BitVec("x_frame", 32)
        for q in rpaths:
            if q.status == "inconclusive":
                res["inconclusive"].append("rust: " + q.detail[:100])
                continue
            if q.status == "exception":
                res["cex"].append({"key": f"{key}|rsym-exception|{type(q.exc).__name__}", "summary": repr(q.exc)[:200], "payload": None})
                continue
            res["rs_paths"] += 1
            r = q.value
            res["rs_steps"] += r["steps"]
            res["pairs"] += 1
            checks = []
            if r["panic"] is not None or r["ret"] is None:
                checks.append(("rust-panics", z3.BoolVal(True)))
            elif py_exc is not None:
                ok_rust = isinstance(r["ret"], int) and r["ret"] >= 0 and r["ret"] < 0x80000000
                checks.append((f"python-raises-{type(py_exc).__name__}-rust-{'executes' if ok_rust else 'errors'}", z3.BoolVal(ok_rust)))
            else:
                ret = r["ret"]
                if isinstance(ret, int):
                    sret = ret - (1 << 32) if ret >> 31 else ret
                    if sret < 0:
                        checks.append(("rust-returns-error", z3.BoolVal(True)))
                    elif sret != n:
                        checks.append(("length-differs", z3.BoolVal(True)))
                else:
                    checks.append(("length-differs", _t(ret, 32) != z3.BitVecVal(n, 32)))
                if not checks or checks[-1][0] == "length-differs":
                    out = r["out"]
                    for i, name in enumerate(REG_ORDER):
                        if name == "F":
                            continue
                        checks.append((name, z3.ZeroExt(32 - REG_BITS[name], impl[name]) != _t(out[i], 32)))
                    f = impl["F"]
                    checks.append(("C", z3.ZeroExt(31, z3.Extract(0, 0, f)) != _t(out[10], 32)))
                    checks.append(("Z", z3.ZeroExt(31, z3.Extract(1, 1, f)) != _t(out[11], 32)))
                    checks.append(("F-vs-FC/FZ", z3.Extract(1, 0, _t(out[7], 32)) != z3.Concat(z3.Extract(0, 0, _t(out[11], 32)), z3.Extract(0, 0, _t(out[10], 32)))))
                    rs_low = z3.Or(_t(out[8], 32) != 0, _t(out[9], 32) != 0)
                    checks.append(("low-power-state", z3.BoolVal(bool(v["halted"])) != rs_low))
                    memneq = z3.Select(v["mem_final"], x) != z3.Select(r["mem"], x)
                    geo = _block_geometry(v, opcode) if opcode in (0xCB, 0xCF) else None
                    if geo is None:
                        checks.append(("mem", memneq))
                    else:
                        # internal block moves: one obligation per overlap geometry, so that a divergence the unchanged tree
                        # already has for one geometry (F16) cannot hide a new one for another
                        for gname, gterm in geo:
                            checks.append((f"mem@{gname}", z3.And(memneq, gterm)))
            failed = []
            model = None
            unknown = False
            for name, neg in checks:
                rr, m_, dt = X.solve(q.constraints, [neg])
                res["solver_time"] += dt
                if rr == "sat":
                    failed.append(name)
                    model = model or m_
                elif rr != "unsat":
                    unknown = True
            res["obligations"] += 1
            if failed:
                ev = lambda t: model.eval(t, model_completion=True).as_long()  # noqa: E731
                default, entries = X.array_image(model, v["mem"].base)
                cb = [c if isinstance(c, int) else ev(c) for c in code]
                payload = {"property": "C06", "kind": "parity", "key": f"{mn}|{'+'.join(failed)}", "pc": X.PC0, "code": cb, "len": n,
                           "regs": {k: ev(core.term_of(val, 24)) for k, val in v["pre"].items()}, "mem_default": default,
                           "mem": {str(a): b for a, b in entries.items()}, "failed": failed, "mnemonic": mn}
                pfx = ("pre" if prefix is not None else "nopre") + ("/full-domain" if domain == "full" else "") + ("/same-register" if same_reg else "")
                kinds = "+".join(sorted(set(failed)))
                res["cex"].append({"key": f"{pfx}|{mn} {opcode:02X}|{kinds}", "summary": f"{key} {mn}: {kinds}", "payload": payload})
            elif unknown:
                res["unknown"] += 1
            else:
                res["discharged"] += 1
                if not res["samples"]:
                    res["samples"].append({"class": key, "mnemonic": mn, "python_path_constraints": len(p.constraints), "rust_path_constraints": len(q.constraints),
                                           "rust_ir_steps": r["steps"], "compared": [c[0] for c in checks]})
    res["wall"] = time.time() - t0
    return res


def _block_geometry(v, opcode):
    """Overlap classes of MVL/MVLD (m),(n): distance between the first byte written and the first byte read (mod 256) against I."""
    # the first data byte read is the read immediately before the first write (reads of BP/PX/PY for address formation come earlier)
    log = v["log"]
    wi = next((j for j, (k, _a, _v) in enumerate(log) if k == "w"), None)
    if wi is None or wi == 0 or log[wi - 1][0] != "r":
        return None
    r0, w0 = core.term_of(log[wi - 1][1], 64), core.term_of(log[wi][1], 64)
    i64 = z3.ZeroExt(48, z3.Extract(15, 0, core.term_of(v["pre"]["I"], 64)))
    d_up = (w0 - r0) & 0xFF  # destination above source
    d_dn = (r0 - w0) & 0xFF  # source above destination
    up = z3.And(d_up != 0, z3.ULT(d_up, i64))
    dn = z3.And(d_dn != 0, z3.ULT(d_dn, i64))
    return [("dst-above-src-overlap", up), ("src-above-dst-overlap", z3.And(dn, z3.Not(up))), ("no-overlap", z3.And(z3.Not(up), z3.Not(dn)))]


def main(tier):
    t0 = time.time()
    X.setup()
    from engines.rsym import build

    b = build.ensure_built()
    rep = common.Report("C06")
    items = [(tier, c) for c in classes(tier)]
    only = None
    if os.environ.get("VERIF_OPCODES"):  # debugging aid: restrict the case split (the vacuity floor then fails the run on purpose)
        only = {int(x, 16) for x in os.environ["VERIF_OPCODES"].split(",")}
        items = [it for it in items if it[1][1] in only]
    # control-flow opcodes once more at the end of a 64 KiB page (instruction ends at / return address lies beyond the boundary)
    for c in classes(tier):
        if c[0] is None and c[1] <= 0x1F and (only is None or c[1] in only):
            for pc in ((0x3FFFD, 0x3FFFE) if tier == "quick" else (0x3FFFC, 0x3FFFD, 0x3FFFE, 0x3FFFF, 0x0FFFE)):
                items.append((tier, c, "edge", pc))
    # parse once in the parent so forked workers share the module image
    build.image()
    results = common.pool_map(run_class, items)
    tot = {k: 0 for k in ("py_paths", "rs_paths", "pairs", "obligations", "discharged", "unknown", "rs_steps")}
    solver_time = 0.0
    samples, inconcl, mns, cex = [], [], {}, {}
    for r in results:
        if "fatal" in r:
            rep.harness_errors.append(f"{r['item']}: {r['fatal']}\n{r.get('tb', '')}")
            continue
        for k in tot:
            tot[k] += r[k]
        solver_time += r["solver_time"]
        inconcl += [f"{r['key']}: {x}" for x in r["inconclusive"]]
        for s_, c_ in r["mnemonics"].items():
            mns[s_] = mns.get(s_, 0) + c_
        if r["samples"] and len(samples) < 10:
            samples += r["samples"][:1]
        for c in r["cex"]:
            cex.setdefault(c["key"], c)
    for k, c in sorted(cex.items()):
        if c["payload"] is None:
            rep.harness_errors.append(f"{k}: {c['summary']}")
        else:
            rep.counterexample(k, c["payload"], c["summary"])
    n_incon = len(inconcl) + tot["unknown"]
    if tot["obligations"] < (300 if tier == "quick" else 1500):
        rep.harness_errors.append(f"vacuity guard: only {tot['obligations']} obligations")
    if n_incon > 0.05 * max(1, tot["obligations"]):
        rep.harness_errors.append(f"too many inconclusive: {n_incon}: {inconcl[:4]}")
    code = rep.finish()
    wall = time.time() - t0
    coverage = {
        "programs": len(items), "disagreements_checked": rep.nreplay, "obligations": tot["obligations"], "discharged": tot["discharged"],
        "inconclusive": n_incon, "evaluations": tot["pairs"], "distinct_nontrivial": len(mns),
        "rule": "one class per (prefix, opcode, length); every Python path is paired with every Rust path explored under its path condition; distinct = distinct mnemonics",
        "samples": samples[:8], "python_paths": tot["py_paths"], "rust_paths": tot["rs_paths"], "rust_ir_steps": tot["rs_steps"],
        "solver_time_s": round(solver_time, 2), "inconclusive_details": inconcl[:10],
        "functions_encoded": ["Rust (LLVM IR, release profile): sc62015_core::llama::eval::LlamaExecutor::execute and everything it reaches (decode_with_prefix, read/write operands, LlamaState::get_reg/set_reg, hashbrown/SipHash for the register map)",
                              "Python: Emulator.execute_instruction and every lift (as C04)"],
        "rust_build": {"cache_key": b["key"], "rebuilt": b["built"], "build_s": round(b["build_s"], 1), "profile": "release (wrapping arithmetic), opt-level 1, fat LTO, panic=abort"},
        "bounds": {"encodings": "valid encodings only (Python decoder accepts)", "I": f"1..{2 if tier == 'quick' else 3}", "pc": hex(X.PC0) + "; opcodes 00-1F additionally at page-edge addresses 0x3FFFD/0x3FFFE (thorough: 0x3FFFC-0x3FFFF, 0x0FFFE)",
                   "prefixes": "none + 3 (quick) / none + all 15 (thorough)", "named_imem": "operand bytes are not IMEM register names (rendering is not involved)"},
        "known_findings_hit": {k: len(v) for k, v in rep.known_hits.items()},
    }
    assumptions = ["Rust environment stubs: malloc/realloc/free (bump allocator), getrandom (fixed bytes: hash seeds do not influence results, all map keys are concrete), getenv -> NULL, TLS single-threaded, atomics as plain accesses",
                   "TEMP registers, call bookkeeping and trace state are excluded from the comparison by the property's wording (C07)",
                   "debug-profile overflow panics are outside the claim (the release profile is what ships)"]
    common.write_evidence("C06", tier, "translation_validation", coverage, assumptions, wall, len(rep.violations))
    print(f"C06 {tier}: classes={len(items)} py_paths={tot['py_paths']} rs_paths={tot['rs_paths']} obligations={tot['obligations']} discharged={tot['discharged']} "
          f"inconclusive={n_incon} cex={len(cex)} rust_steps={tot['rs_steps']} solver={solver_time:.1f}s wall={wall:.1f}s")
    return code
