"""Concrete replay for C07 counterexamples."""


def replay(rec):
    from sc62015.pysc62015.emulator import Emulator, RegisterName
    from binja_test_mocks.eval_llil import Memory

    if rec["sub"] != "hidden":
        # process / split counterexamples carry no data model: they hold for every input of the class
        print("structural counterexample:", rec["key"])
        return True

    def run(which):
        size = 0x1000000
        mem = bytearray([rec.get("mem_default", 0) & 0xFF]) * size
        for a, v in rec.get("mem", {}).items():
            if 0 <= int(a) < size:
                mem[int(a)] = v
        for i, b in enumerate(rec["code"]):
            mem[rec["pc"] + i] = b
        emu = Emulator(Memory(lambda a: mem[a], lambda a, v: mem.__setitem__(a, v)), reset_on_init=False)
        for name, val in rec["regs"].items():
            emu.regs._values[RegisterName[name]] = val
        for name, pair in rec["hidden"].items():
            v = pair[which]
            if name.startswith("r_TEMP"):
                emu.regs._values[RegisterName[name[2:]]] = v
            elif name == "h_call_sub_level":
                emu.regs.call_sub_level = v
            elif name == "h_last_pc":
                emu._last_pc = v
            elif name == "h_current_pc":
                emu._current_pc = v
        exc = None
        try:
            emu.execute_instruction(rec["pc"])
        except Exception as e:  # noqa: BLE001
            exc = type(e).__name__
        regs = {k: emu.regs._values[RegisterName[k]] for k in ("BA", "I", "X", "Y", "U", "S", "PC")}
        regs["CZ"] = emu.regs._values[RegisterName.F] & 3
        return regs, bytes(mem), exc, emu.state.halted

    a, b = run(0), run(1)
    if a != b:
        print("architectural results differ:", {k: (hex(a[0][k]), hex(b[0][k])) for k in a[0] if a[0][k] != b[0][k]}, a[2], b[2])
    return a != b
