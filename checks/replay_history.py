"""Concrete replay for C07 counterexamples."""


def replay(rec):
    from sc62015.pysc62015.emulator import Emulator, RegisterName
    from binja_test_mocks.eval_llil import Memory

    if rec.get("rust"):
        return replay_rust(rec)
    if rec["sub"] != "hidden":
        # process / split counterexamples carry no data model: they hold for every input of the class
        print("structural counterexample:", rec["key"])
        return True

    def run(which):
        size = 0x1000000
        mem = bytearray([rec.get("mem_default", 0) & 0xFF]) * size
        for a, v in rec.get("mem", {}).items():
            if 0 <= int(a) < size:
                mem[int(a)] = v
        for i, b in enumerate(rec["code"]):
            mem[rec["pc"] + i] = b
        emu = Emulator(Memory(lambda a: mem[a], lambda a, v: mem.__setitem__(a, v)), reset_on_init=False)
        for name, val in rec["regs"].items():
            emu.regs._values[RegisterName[name]] = val
        for name, pair in rec["hidden"].items():
            v = pair[which]
            if name.startswith("r_TEMP"):
                emu.regs._values[RegisterName[name[2:]]] = v
            elif name == "h_call_sub_level":
                emu.regs.call_sub_level = v
            elif name == "h_last_pc":
                emu._last_pc = v
            elif name == "h_current_pc":
                emu._current_pc = v
        exc = None
        try:
            emu.execute_instruction(rec["pc"])
        except Exception as e:  # noqa: BLE001
            exc = type(e).__name__
        regs = {k: emu.regs._values[RegisterName[k]] for k in ("BA", "I", "X", "Y", "U", "S", "PC")}
        regs["CZ"] = emu.regs._values[RegisterName.F] & 3
        return regs, bytes(mem), exc, emu.state.halted

    a, b = run(0), run(1)
    if a != b:
        print("architectural results differ:", {k: (hex(a[0][k]), hex(b[0][k])) for k in a[0] if a[0][k] != b[0][k]}, a[2], b[2])
    return a != b


HIDDEN_INPUTS = {**{f"h_temp{i}": 20 + i for i in range(14)}, "h_depth": 34, "h_sub": 35, "h_frame_dest": 36, "h_frame_bits": 37, "h_page": 38,
                 "h_stale_fc": 45, "h_stale_fz": 46}


def replay_rust(rec):
    """The natively compiled harness (real LlamaExecutor::execute after the hidden history) run twice: same architectural
    state, the two hidden valuations of the model (x and x'); or once without and once with a pending frame / saved page."""
    from checks.replay_parity import run_rust

    m = rec["model"]
    regs = {n: int(m.get("r_" + n, 0)) for n in ("BA", "I", "X", "Y", "U", "S", "F")}
    base = {"pc": rec["pc"], "regs": regs, "code": rec["code"], "mem": rec.get("mem", {}), "mem_default": rec.get("mem_default", 0)}

    def run(primed, have):
        extra = {39: have}
        for name, idx in HIDDEN_INPUTS.items():
            extra[idx] = int(m.get(name + "'" if primed and (name + "'") in m else name, 0))
        r = run_rust(base, entry="harness_execute_hidden", extra=extra)
        return (r["ret"], sorted(r["out"].items()), sorted(r["stores"]), r["rc"])

    if rec["what"] == "hidden-values-change-the-outcome":
        have = int(m.get("h_have", 0))
        outs = [(run(False, h), run(True, h)) for h in ((have,) if "h_have" in m else (0, 3))]
    else:
        outs = [(run(False, 0), run(False, 3))]
    for a, b in outs:
        if a != b:
            da = [x for x in a[1] if x not in b[1]][:4]
            db = [x for x in b[1] if x not in a[1]][:4]
            print("native harness results differ between the two hidden valuations:", a[0], b[0], da, db, [s for s in a[2] if s not in b[2]][:4])
            return True
    print("native harness results are identical for both hidden valuations")
    return False
