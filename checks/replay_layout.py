"""Concrete replay for C10 counterexamples (clean interpreter, unmodified code, real numerals)."""
from __future__ import annotations

from . import layout_core as LC


class _Recorder:
    last = None

    def __init__(self):
        self.chunks = []
        _Recorder.last = self

    def add_binary(self, data, address=0, overwrite=False):
        self.chunks.append((address, list(data)))


class _FakeBincopy:
    BinFile = _Recorder


class _K:
    true = True
    false = False
    eq = staticmethod(lambda a, b: a == b)
    ne = staticmethod(lambda a, b: a != b)
    and_ = staticmethod(lambda conds: all(conds))


def replay(rec):
    from sc62015.pysc62015 import sc_asm

    sc_asm.bincopy = _FakeBincopy
    before = {k: [t["opcode"] for t in v] for k, v in sc_asm.REVERSE_OPCODES_CACHE.items()} if sc_asm.REVERSE_OPCODES_CACHE else None

    class RecAsm(sc_asm.Assembler):
        def __init__(self):
            super().__init__()
            self.rec1, self.rec2 = [], []

        def _get_statement_size(self, st, ln):
            r = super()._get_statement_size(st, ln)
            self.rec1.append((ln, r))
            return r

        def _encode_statement(self, st, ln):
            r = super()._encode_statement(st, ln)
            self.rec2.append((ln, list(r)))
            return r

        def assemble(self, text):
            self.rec1, self.rec2 = [], []
            return super().assemble(text)

        def last_binfile(self):
            return _Recorder.last

    vals = rec["numerals"]

    def numeral(name, bits, value=None):
        if value is None:
            value = vals.get(name, 0)
        return "0x%X" % value, value

    def alone(addr_text, text):
        try:
            ch = RecAsm().assemble(f".ORG {addr_text}\n{text}\n").chunks
        except sc_asm.AssemblerError as e:
            raise LC.AsmFailure(str(e))
        if len(ch) != 1:
            raise LC.AsmFailure("layout")
        return ch[0][1]

    skel = [tuple(s) for s in rec["skeleton"]]
    src, obl, err = LC.evaluate(skel, numeral, RecAsm, _K, alone)
    print(src.rstrip())
    if err is not None:
        print("assembler:", str(err).splitlines()[0])
    failed = [n for n, c in obl if not c]
    after = {k: [t["opcode"] for t in v] for k, v in sc_asm.REVERSE_OPCODES_CACHE.items()}
    if before is not None and before != after:
        failed.append("reverse-opcode-cache-changed")
    print("failed obligations:", failed)
    return rec["obligation"] in failed
