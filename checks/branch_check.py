"""C05: branch metadata (InstructionInfo.branches) vs where execution goes, and call/return inverse pairs.

Part 1 - every (prefix, opcode, length) class at a *symbolic 20-bit address*: the real
``SC62015.get_instruction_info`` and the real ``Emulator.execute_instruction`` run on the same
symbolic bytes/flags/registers/memory; z3 decides that the PC reached is the reported
target under the corresponding condition outcome, and addr+len when nothing is reported.

Part 2 - two-instruction runs CALL;RET, CALLF;RETF, IR;RETI with symbolic addresses,
targets, stack pointer, flags, IMR and memory: z3 decides that PC, S, C/Z and IMR are restored.
"""
from __future__ import annotations

import sys
import time

import z3

from . import common
from . import isa_exec as X
from engines.pysym import core
from engines.pysym.core import SymInt, explore

BRANCH_OPS = set(range(0x00, 0x20)) | {0xFE, 0xFF}


def classes(tier):
    from .isa_check import probe

    pr = probe()
    prefixes = [None, 0x32] if tier == "quick" else [None, 0x32, 0x25, 0x23, 0x36]
    out = []
    for p in prefixes:
        for op in range(256):
            if op in X.PRE_BYTES:
                continue
            if p is not None and op not in BRANCH_OPS and tier == "quick":
                continue
            by_len = pr.get(op, {})
            for ln, b2s in sorted(by_len.items()):
                n = ln + (1 if p is not None else 0)
                b2 = None if len(by_len) == 1 and len(b2s) == 256 else tuple(b2s)
                out.append(("meta", p, op, n, b2))
    out.sort(key=lambda c: 0 if c[2] in (0x56, 0x5E, 0xE3, 0xEB, 0xF3, 0xFB, 0xD3, 0xDB, 0xCB, 0xCF) else 1)
    for pair in ("CALL;RET", "CALLF;RETF", "IR;RETI"):
        out.append(("pair", pair, None, None, None))
    return out


def _t20(v):
    return core.term_of(v, 20)


def run_meta(tier, prefix, opcode, n, b2):
    key = f"{'--' if prefix is None else '%02X' % prefix}:{opcode:02X}:n{n}"
    res = {"key": key, "paths": 0, "exec": 0, "obligations": 0, "discharged": 0, "unknown": 0, "cex": [], "solver_time": 0.0,
           "samples": [], "inconclusive": [], "mnemonics": {}}
    try:
        paths, stats = X.run_paths(prefix, opcode, n, b2_set=b2, N=1, temps="zero", named_limit=0, sym_pc=True, want_info=True, render=False,
                                   deadline_s=120 if tier == "quick" else 600, max_paths=4000)
    except core.PathLimit as e:
        res["inconclusive"].append(str(e))
        return res
    res["paths"] = len(paths)
    res["solver_time"] += stats.solver_time
    for p in paths:
        if p.status == "inconclusive":
            res["inconclusive"].append(p.detail[:100])
            continue
        if p.status == "exception":
            res["cex"].append({"key": f"{key}|harness-exception|{type(p.exc).__name__}", "summary": repr(p.exc)[:160], "payload": None})
            continue
        v = p.value
        if v["kind"] != "exec":
            continue
        if "exc" in v:
            # execution failures are C04's subject (documented result); not a metadata question
            continue
        res["exec"] += 1
        mn = v["mn"]
        res["mnemonics"][mn] = res["mnemonics"].get(mn, 0) + 1
        info = v.get("info")
        pc = _t20(v["pc"])
        post_pc = _t20(v["post"]["PC"])
        nxt = pc + n
        checks = []
        if info is None:
            checks.append(("info-rejects-valid-instruction", z3.BoolVal(True)))
        else:
            ln, branches = info
            if ln != n:
                checks.append(("info-length-differs", z3.BoolVal(True)))
            types = [t for (t, _tg) in branches]
            tg = {t: target for (t, target) in branches}
            f = core.term_of(v["pre"]["F"], 8)
            cond = v.get("cond")
            if cond:
                flag = z3.Extract(1, 1, f) if "Z" in cond else z3.Extract(0, 0, f)
                taken = flag == (z3.BitVecVal(0, 1) if "N" in cond else z3.BitVecVal(1, 1))
            else:
                taken = z3.BoolVal(True)
            if not branches:
                if mn != "IR":  # a software interrupt counts as a call that returns to addr+len
                    checks.append(("no-branch-reported-but-pc-differs", post_pc != nxt))
            elif "UnconditionalBranch" in types:
                checks.append(("unconditional-target", post_pc != _t20(tg["UnconditionalBranch"])))
            elif "TrueBranch" in types or "FalseBranch" in types:
                if "TrueBranch" not in types or "FalseBranch" not in types:
                    checks.append(("conditional-branch-misses-an-edge", z3.BoolVal(True)))
                else:
                    checks.append(("true-target", z3.And(taken, post_pc != _t20(tg["TrueBranch"]))))
                    checks.append(("false-target", z3.And(z3.Not(taken), post_pc != _t20(tg["FalseBranch"]))))
            elif "CallDestination" in types:
                checks.append(("call-target", post_pc != _t20(tg["CallDestination"])))
            elif "FunctionReturn" in types or "UnresolvedBranch" in types:
                pass  # target comes from the stack / reset vector
            else:
                checks.append(("unknown-branch-type:" + ",".join(types), z3.BoolVal(True)))
        for name, neg in checks:
            res["obligations"] += 1
            r, m, dt = X.solve(p.constraints, [neg])
            res["solver_time"] += dt
            if r == "unsat":
                res["discharged"] += 1
                if not res["samples"]:
                    res["samples"].append({"class": key, "mnemonic": mn, "obligation": name, "branches": [(t, str(x)[:40]) for t, x in (info[1] if info else [])],
                                           "negated_post_head": neg.sexpr()[:120]})
            elif r == "sat":
                ev = lambda t: m.eval(t, model_completion=True).as_long()  # noqa: E731
                default, entries = X.array_image(m, v["mem"].base)
                code = ([prefix] if prefix is not None else []) + [opcode] + [ev(core.term_of(b, 8)) for b in v["obytes"]]
                payload = {"property": "C05", "kind": "branch", "key": f"{mn}|{name}", "pc": ev(pc), "code": code + [0] * 8, "len": n,
                           "regs": {k: ev(core.term_of(val, 24)) for k, val in v["pre"].items()}, "mem_default": default,
                           "mem": {str(a): b for a, b in entries.items()}, "obligation": name, "mnemonic": mn, "cond": v.get("cond")}
                pfx = "pre" if prefix is not None else "nopre"
                res["cex"].append({"key": f"{pfx}|{mn} {opcode:02X}|{name}", "summary": f"{key} {mn}", "payload": payload})
            else:
                res["unknown"] += 1
    return res


def run_pair(tier, pair):
    X.setup()
    from engines.pysym.machine import SymMemory, make_emulator, post_regs, addr_term

    key = pair
    res = {"key": key, "paths": 0, "exec": 0, "obligations": 0, "discharged": 0, "unknown": 0, "cex": [], "solver_time": 0.0,
           "samples": [], "inconclusive": [], "mnemonics": {pair: 1}}
    IMR_ADDR = 0x1000FB

    def fn():
        eng = core.engine()
        pc = SymInt.var("pc", 20)
        eng.assume((pc + 16 <= 0x100000).t)
        if pair == "CALL;RET":
            lo, hi = SymInt.var("t_lo", 8), SymInt.var("t_hi", 8)
            code = [0x04, lo, hi]
            target = (pc & 0xF0000) | (hi << 8) | lo
            ret = [0x06]
            # near call/return: next instruction in the same 64K page
            eng.assume(((pc & 0xFFFF) + 3 < 0x10000).t)
        elif pair == "CALLF;RETF":
            lo, mid, hi = SymInt.var("t_lo", 8), SymInt.var("t_mid", 8), SymInt.var("t_hi", 8)
            code = [0x05, lo, mid, hi]
            target = ((hi & 0x0F) << 16) | (mid << 8) | lo
            ret = [0x07]
        else:
            code = [0xFE]
            target = None
            ret = [0x01]
        code = code + [0] * 8
        mem = SymMemory("M", pc, code)
        emu, pre = make_emulator(mem, temps="zero")
        S = pre["S"]
        eng.assume((S >= 8).t)
        if target is None:
            # the handler address comes from the vector
            vec = [mem.byte_at(mem.base, 0xFFFFA + i) for i in range(3)]
            tgt_t = z3.Concat(z3.Extract(3, 0, vec[2]), vec[1], vec[0])
            target = core.SymInt.zext(tgt_t)
        eng.assume((target + 8 <= 0x100000).t)
        if pair == "CALL;RET":
            # the near return does not sit on the last byte of its 64K page (which page a RET there
            # returns to is not defined by the documentation)
            eng.assume(((target & 0xFFFF) + 1 < 0x10000).t)
        # the callee is the matching return followed by NOPs
        for i, b in enumerate(ret + [0, 0, 0]):
            eng.assume(z3.Select(mem.base, addr_term(target + i)) == z3.BitVecVal(b, 8))
        # the stack frame overlaps neither the code at pc, nor the callee, nor the vector
        for base, ln in ((pc, len(code)), (target, 4), (0xFFFFA, 3)):
            eng.assume((S <= base) | (S - 5 >= base + ln))
        imr0 = mem.byte_at(mem.base, IMR_ADDR)
        n1 = 3 if pair == "CALL;RET" else (4 if pair == "CALLF;RETF" else 1)
        emu.execute_instruction(pc)
        from sc62015.pysc62015.emulator import RegisterName

        mid_pc = emu.regs._values[RegisterName.PC]
        tq = core.term_of(mid_pc, 20) == core.term_of(target, 20)
        out = {"pc": pc, "pre": pre, "mem": mem, "n1": n1, "mid_ok": tq, "imr0": imr0}
        emu.execute_instruction(target)
        out["post"] = post_regs(emu)
        out["imr1"] = z3.Select(mem.cur, z3.BitVecVal(IMR_ADDR, 32))
        return out

    try:
        paths, stats = explore(fn, max_paths=2000, deadline_s=300)
    except core.PathLimit as e:
        res["inconclusive"].append(str(e))
        return res
    res["paths"] = len(paths)
    res["solver_time"] += stats.solver_time
    for p in paths:
        if p.status == "inconclusive":
            res["inconclusive"].append(p.detail[:100])
            continue
        if p.status == "exception":
            from engines.pysym.machine import MemoryRangeError

            if isinstance(p.exc, MemoryRangeError):
                continue
            res["cex"].append({"key": f"{key}|raises|{type(p.exc).__name__}", "summary": repr(p.exc)[:160], "payload": None})
            continue
        v = p.value
        res["exec"] += 1
        pc = _t20(v["pc"])
        post = v["post"]
        f0 = core.term_of(v["pre"]["F"], 8)
        f1 = core.term_of(post["F"], 8)
        checks = [
            ("call-reaches-target", z3.Not(v["mid_ok"])),
            ("resume-after-call", _t20(post["PC"]) != pc + v["n1"]),
            ("stack-pointer-restored", _t20(post["S"]) != _t20(v["pre"]["S"])),
            ("flags-restored", z3.Extract(1, 0, f1) != z3.Extract(1, 0, f0)),
            ("interrupt-mask-restored", v["imr1"] != v["imr0"]),
        ]
        for r_ in ("BA", "I", "X", "Y", "U"):
            checks.append((f"{r_}-unchanged", core.term_of(post[r_], 24) != core.term_of(v["pre"][r_], 24)))
        for name, neg in checks:
            res["obligations"] += 1
            r, m, dt = X.solve(p.constraints, [neg])
            res["solver_time"] += dt
            if r == "unsat":
                res["discharged"] += 1
                if not res["samples"]:
                    res["samples"].append({"class": key, "obligation": name, "negated_post_head": neg.sexpr()[:120]})
            elif r == "sat":
                ev = lambda t: m.eval(t, model_completion=True).as_long()  # noqa: E731
                default, entries = X.array_image(m, v["mem"].base)
                payload = {"property": "C05", "kind": "branch", "key": f"{pair}|{name}", "pair": pair, "pc": ev(pc),
                           "regs": {k: ev(core.term_of(val, 24)) for k, val in v["pre"].items()}, "mem_default": default,
                           "mem": {str(a): b for a, b in entries.items()}, "obligation": name}
                res["cex"].append({"key": f"{pair}|{name}", "summary": f"{pair}: {name}", "payload": payload})
            else:
                res["unknown"] += 1
    return res


def run_class(item):
    tier, c = item
    X.setup()
    t0 = time.time()
    if c[0] == "meta":
        r = run_meta(tier, c[1], c[2], c[3], c[4])
    else:
        r = run_pair(tier, c[1])
    r["wall"] = time.time() - t0
    return r


def main(tier):
    t0 = time.time()
    X.setup()
    rep = common.Report("C05")
    items = [(tier, c) for c in classes(tier)]
    results = common.pool_map(run_class, items)
    tot = {k: 0 for k in ("paths", "exec", "obligations", "discharged", "unknown")}
    solver_time = 0.0
    samples, inconcl, mns, cex = [], [], {}, {}
    for r in results:
        if "fatal" in r:
            rep.harness_errors.append(f"{r['item']}: {r['fatal']}\n{r.get('tb', '')}")
            continue
        for k in tot:
            tot[k] += r[k]
        solver_time += r["solver_time"]
        inconcl += [f"{r['key']}: {x}" for x in r["inconclusive"]]
        for s_, c_ in r["mnemonics"].items():
            mns[s_] = mns.get(s_, 0) + c_
        if r["samples"] and (len(samples) < 8 or r["key"] in ("CALL;RET", "IR;RETI")):
            samples += r["samples"][:1]
        for c in r["cex"]:
            cex.setdefault(c["key"], c)
    for k, c in sorted(cex.items()):
        if c["payload"] is None:
            rep.harness_errors.append(f"{k}: {c['summary']}")
        else:
            rep.counterexample(k, c["payload"], c["summary"])
    n_incon = len(inconcl) + tot["unknown"]
    if tot["obligations"] < 250:
        rep.harness_errors.append(f"vacuity guard: only {tot['obligations']} obligations")
    if n_incon > 0.05 * max(1, tot["obligations"]):
        rep.harness_errors.append(f"too many inconclusive: {n_incon}: {inconcl[:4]}")
    code = rep.finish()
    wall = time.time() - t0
    coverage = {
        "programs": len(items), "disagreements_checked": rep.nreplay, "obligations": tot["obligations"], "discharged": tot["discharged"],
        "inconclusive": n_incon, "evaluations": tot["paths"], "distinct_nontrivial": len(mns),
        "rule": "one symbolic run per (prefix, opcode, length) class at a symbolic address + three call/return pair programs; distinct = distinct mnemonics executed",
        "samples": samples[:10], "solver_time_s": round(solver_time, 2), "inconclusive_details": inconcl[:10],
        "functions_encoded": ["sc62015.arch.SC62015.get_instruction_info", "every Instruction.analyze", "JP_Abs/JP_Rel/CALL/RetInstruction/RETI/IR/RESET.lift",
                              "sc62015.pysc62015.emulator.Emulator.execute_instruction (fetch at a symbolic address), Registers.set PC masking",
                              "binja_test_mocks.eval_llil eval_call/eval_ret/eval_jump/eval_push/eval_pop"],
        "bounds": {"address": "symbolic 20 bit, pc+16 <= 0x100000", "pairs": "callee body = the matching return (stack-neutral bodies are covered by C04's frame condition)",
                   "near_call": "next instruction inside the same 64 KiB page; the near RET is not the last byte of its page", "I": "counted instructions with I = 1 (the PC effect does not depend on I)"},
        "known_findings_hit": {k: len(v) for k, v in rep.known_hits.items()},
    }
    assumptions = ["the stack frame does not overlap the code bytes, the callee bytes or the interrupt vector",
                   "IR reports no branch and is exempt by the property's wording (a call that returns to addr+len)"]
    common.write_evidence("C05", tier, "translation_validation", coverage, assumptions, wall, len(rep.violations))
    print(f"C05 {tier}: classes={len(items)} paths={tot['paths']} exec={tot['exec']} obligations={tot['obligations']} discharged={tot['discharged']} "
          f"inconclusive={n_incon} cex={len(cex)} solver={solver_time:.1f}s wall={wall:.1f}s")
    return code
