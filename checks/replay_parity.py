"""Concrete replay for C06: unmodified Python core vs the natively compiled Rust core (release profile)."""

REG_ORDER = ["BA", "I", "X", "Y", "U", "S", "PC", "F"]
MASK = {"BA": 0xFFFF, "I": 0xFFFF, "X": 0xFFFFF, "Y": 0xFFFFF, "U": 0xFFFFF, "S": 0xFFFFF, "PC": 0xFFFFF, "F": 0xFF}


def run_python(rec):
    from sc62015.pysc62015.emulator import Emulator, RegisterName
    from binja_test_mocks.eval_llil import Memory

    mem = {}
    default = rec.get("mem_default", 0) & 0xFF
    for a, v in rec.get("mem", {}).items():
        mem[int(a)] = v
    for i, b in enumerate(rec["code"]):
        mem[rec["pc"] + i] = b
    writes = {}

    def rd(a):
        if not (0 <= a < (1 << 24)):
            raise IndexError(f"address out of range {a:#x}")
        return mem.get(a, default)

    def wr(a, v):
        if not (0 <= a < (1 << 24)):
            raise IndexError(f"address out of range {a:#x}")
        mem[a] = v
        writes[a] = v

    emu = Emulator(Memory(rd, wr), reset_on_init=False)
    for name, val in rec["regs"].items():
        emu.regs._values[RegisterName[name]] = val
    emu.regs._values[RegisterName.PC] = rec["pc"]
    exc = None
    try:
        info = emu.execute_instruction(rec["pc"])
        length = info.instruction_info.length
    except Exception as e:  # noqa: BLE001
        exc = f"{type(e).__name__}: {e}"
        length = None
    regs = {k: emu.regs._values[RegisterName[k]] & MASK[k] for k in REG_ORDER}
    return {"regs": regs, "writes": writes, "exc": exc, "len": length, "halted": bool(emu.state.halted), "mem": mem, "default": default}


def run_rust(rec, entry="harness_execute", extra=None):
    from engines.rsym import build

    inputs = {i: (rec["pc"] if n == "PC" else rec["regs"].get(n, 0)) for i, n in enumerate(REG_ORDER)}
    if extra:
        inputs.update(extra)
    mem = {int(a): v for a, v in rec.get("mem", {}).items()}
    for i, b in enumerate(rec["code"]):
        mem[rec["pc"] + i] = b
    return build.run_replay(entry, inputs, mem, default=rec.get("mem_default", 0) & 0xFF)


def replay(rec):
    py = run_python(rec)
    rs = run_rust(rec)
    diffs = []
    if rs["ret"] is None or rs["rc"] != 0:
        diffs.append(f"rust aborted rc={rs['rc']} {rs['stderr'][-120:]}")
    elif py["exc"]:
        if rs["ret"] >= 0:
            diffs.append(f"python raised {py['exc'][:80]} but rust executed (len {rs['ret']})")
    elif rs["ret"] < 0:
        diffs.append("rust returned an error, python executed")
    else:
        if rs["ret"] != py["len"]:
            diffs.append(f"length python {py['len']} rust {rs['ret']}")
        for i, n in enumerate(REG_ORDER):
            if n == "F":
                continue
            if py["regs"][n] != rs["out"][i]:
                diffs.append(f"{n}: python {py['regs'][n]:#x} rust {rs['out'][i]:#x}")
        if (py["regs"]["F"] & 1) != rs["out"][10]:
            diffs.append(f"C: python {py['regs']['F'] & 1} rust {rs['out'][10]}")
        if ((py["regs"]["F"] >> 1) & 1) != rs["out"][11]:
            diffs.append(f"Z: python {(py['regs']['F'] >> 1) & 1} rust {rs['out'][11]}")
        if py["halted"] != bool(rs["out"][8] or rs["out"][9]):
            diffs.append(f"low-power: python {py['halted']} rust halted={rs['out'][8]} off={rs['out'][9]}")
        rmem = {}
        for a, v in rs["stores"]:
            rmem[a] = v
        init = {int(a): v for a, v in rec.get("mem", {}).items()}
        for i, b in enumerate(rec["code"]):
            init[rec["pc"] + i] = b
        for a in set(rmem) | set(py["writes"]):
            pv = py["writes"].get(a, init.get(a, py["default"]))
            rv = rmem.get(a, init.get(a, py["default"]))
            if pv != rv:
                diffs.append(f"mem[{a:#x}]: python {pv:#x} rust {rv:#x}")
    print("code", bytes(rec["code"][:rec["len"]]).hex(), "regs", {k: hex(v) for k, v in rec["regs"].items() if not k.startswith("TEMP")})
    print("differences:", diffs[:8])
    return bool(diffs)
