"""Concrete replay for C14 (Python keyboard matrix) against a plain-Python reference of kbd_spec."""


def replay(rec):
    from pce500.keyboard_matrix import KeyboardMatrix, KEY_LOCATIONS, MatrixEvent, FIFO_SIZE

    mdl = rec["model"]
    g = lambda n, d=0: int(mdl.get(n, d))  # noqa: E731
    op, pair, ah, bg, ob = rec["op"], rec["pair"], rec["active_high"], rec["bg"], rec["obligation"]
    if op == "enqueue":
        m = KeyboardMatrix()
        m._fifo = [g(f"f{i}") for i in range(FIFO_SIZE)]
        m._head, m._tail = g("head"), g("tail")
        q0 = m.fifo_snapshot()
        full = (m._tail + 1) % FIFO_SIZE == m._head
        ev = MatrixEvent(code=g("ecode"), release=bool(g("erel")))
        m._enqueue_event(ev)
        q1 = m.fifo_snapshot()
        want = (q0[1:] if full else q0) + [ev.to_byte()]
        print("before", q0, "after", q1, "want", want)
        return q1 != want or len(q1) > FIFO_SIZE - 1
    m = KeyboardMatrix(columns_active_high=ah)
    m.press_threshold, m.release_threshold = g("press_threshold", 1), g("release_threshold", 1)
    m.repeat_delay, m.repeat_interval = g("repeat_delay"), g("repeat_interval")
    word = bg
    ks = {}
    for i, code in enumerate(pair):
        loc = KEY_LOCATIONS[code]
        st = m._key_states[code]
        st.pressed, st.debounced = bool(g(f"pressed{i}")), bool(g(f"deb{i}"))
        st.press_ticks, st.release_ticks, st.repeat_ticks = g(f"pt{i}"), g(f"rt{i}"), g(f"rp{i}")
        word = (word & ~(1 << loc.column)) | (g(f"strobe{loc.column}") << loc.column)
        ks[code] = dict(col=loc.column, row=loc.row, pressed=st.pressed, deb=st.debounced, pt=st.press_ticks, rt=st.release_ticks, rp=st.repeat_ticks,
                        code=(loc.column << 3) | loc.row)
    m.kol, m.koh = word & 0xFF, (word >> 8) & 0x0F

    def strobed(w, col):
        bit = (w >> col) & 1
        return bit == 1 if ah else bit == 0

    def ref_tick(k, w):
        act = k["pressed"] and strobed(w, k["col"])
        deb, pt, rt, rp = k["deb"], k["pt"], k["rt"], k["rp"]
        evs = []
        if act:
            if not deb:
                pt += 1
                if pt >= m.press_threshold:
                    deb, pt, rt, rp = True, m.press_threshold, 0, m.repeat_delay
                    evs.append("press")
            else:
                rt = 0
                if m.repeat_interval > 0:
                    if rp > 0:
                        rp -= 1
                    if rp <= 0:
                        evs.append("repeat")
                        rp = m.repeat_interval
        else:
            pt = 0
            if deb:
                rt += 1
                if rt >= m.release_threshold:
                    deb, rt, rp = False, 0, 0
                    evs.append("release")
        if not k["pressed"] and not deb:
            rp = 0
        return dict(deb=deb, pt=pt, rt=rt, rp=rp), evs

    def ref_kil(w, debs):
        v = 0
        for code, k in ks.items():
            if strobed(w, k["col"]) and debs[code]:
                v |= 1 << k["row"]
        return v

    if op == "scan_tick":
        events = m.scan_tick()
        bad = False
        for code, k in ks.items():
            want, evs = ref_tick(k, word)
            st = m._key_states[code]
            got = dict(deb=st.debounced, pt=st.press_ticks, rt=st.release_ticks, rp=st.repeat_ticks)
            gevs = [("release" if e.release else ("repeat" if e.repeat else "press")) for e in events if e.code == k["code"]]
            if got != want or gevs != evs:
                print(code, "got", got, gevs, "want", want, evs)
                bad = True
        return bad
    if op == "read_kil":
        got = m.read_kil()
        want = ref_kil(word, {c: k["deb"] for c, k in ks.items()})
        print("kil", got, "want", want)
        return got != want
    if op in ("write_kol", "write_koh"):
        nw = bg
        for code, k in ks.items():
            nw = (nw & ~(1 << k["col"])) | (g(f"nstrobe{k['col']}") << k["col"])
        if op == "write_kol":
            m.write_kol(nw & 0xFF)
            eff = (word & 0xF00) | (nw & 0xFF)
        else:
            m.write_koh((nw >> 8) & 0xFF)
            eff = (word & 0xFF) | (nw & 0xF00)
        got = m.read_kil()
        want = ref_kil(eff, {c: k["deb"] for c, k in ks.items()})
        print("kil", got, "want", want)
        return got != want
    if op == "press_release":
        return True
    return False
