"""Concrete replay for C14 (Python keyboard matrix) against a plain-Python reference of kbd_spec."""


def replay(rec):
    if rec.get("rust"):
        return replay_rust(rec)
    from pce500.keyboard_matrix import KeyboardMatrix, KEY_LOCATIONS, MatrixEvent, FIFO_SIZE

    mdl = rec["model"]
    g = lambda n, d=0: int(mdl.get(n, d))  # noqa: E731
    op, pair, ah, bg, ob = rec["op"], rec["pair"], rec["active_high"], rec["bg"], rec["obligation"]
    if op == "enqueue":
        m = KeyboardMatrix()
        m._fifo = [g(f"f{i}") for i in range(FIFO_SIZE)]
        m._head, m._tail = g("head"), g("tail")
        q0 = m.fifo_snapshot()
        full = (m._tail + 1) % FIFO_SIZE == m._head
        ev = MatrixEvent(code=g("ecode"), release=bool(g("erel")))
        m._enqueue_event(ev)
        q1 = m.fifo_snapshot()
        want = (q0[1:] if full else q0) + [ev.to_byte()]
        print("before", q0, "after", q1, "want", want)
        return q1 != want or len(q1) > FIFO_SIZE - 1
    m = KeyboardMatrix(columns_active_high=ah)
    m.press_threshold, m.release_threshold = g("press_threshold", 1), g("release_threshold", 1)
    m.repeat_delay, m.repeat_interval = g("repeat_delay"), g("repeat_interval")
    word = bg
    ks = {}
    for i, code in enumerate(pair):
        loc = KEY_LOCATIONS[code]
        st = m._key_states[code]
        st.pressed, st.debounced = bool(g(f"pressed{i}")), bool(g(f"deb{i}"))
        st.press_ticks, st.release_ticks, st.repeat_ticks = g(f"pt{i}"), g(f"rt{i}"), g(f"rp{i}")
        word = (word & ~(1 << loc.column)) | (g(f"strobe{loc.column}") << loc.column)
        ks[code] = dict(col=loc.column, row=loc.row, pressed=st.pressed, deb=st.debounced, pt=st.press_ticks, rt=st.release_ticks, rp=st.repeat_ticks,
                        code=(loc.column << 3) | loc.row)
    m.kol, m.koh = word & 0xFF, (word >> 8) & 0x0F

    def strobed(w, col):
        bit = (w >> col) & 1
        return bit == 1 if ah else bit == 0

    def ref_tick(k, w):
        act = k["pressed"] and strobed(w, k["col"])
        deb, pt, rt, rp = k["deb"], k["pt"], k["rt"], k["rp"]
        evs = []
        if act:
            if not deb:
                pt += 1
                if pt >= m.press_threshold:
                    deb, pt, rt, rp = True, m.press_threshold, 0, m.repeat_delay
                    evs.append("press")
            else:
                rt = 0
                if m.repeat_interval > 0:
                    if rp > 0:
                        rp -= 1
                    if rp <= 0:
                        evs.append("repeat")
                        rp = m.repeat_interval
        else:
            pt = 0
            if deb:
                rt += 1
                if rt >= m.release_threshold:
                    deb, rt, rp = False, 0, 0
                    evs.append("release")
        if not k["pressed"] and not deb:
            rp = 0
        return dict(deb=deb, pt=pt, rt=rt, rp=rp), evs

    def ref_kil(w, debs):
        v = 0
        for code, k in ks.items():
            if strobed(w, k["col"]) and debs[code]:
                v |= 1 << k["row"]
        return v

    if op == "scan_tick":
        events = m.scan_tick()
        bad = False
        for code, k in ks.items():
            want, evs = ref_tick(k, word)
            st = m._key_states[code]
            got = dict(deb=st.debounced, pt=st.press_ticks, rt=st.release_ticks, rp=st.repeat_ticks)
            gevs = [("release" if e.release else ("repeat" if e.repeat else "press")) for e in events if e.code == k["code"]]
            if got != want or gevs != evs:
                print(code, "got", got, gevs, "want", want, evs)
                bad = True
        return bad
    if op == "read_kil":
        got = m.read_kil()
        want = ref_kil(word, {c: k["deb"] for c, k in ks.items()})
        print("kil", got, "want", want)
        return got != want
    if op in ("write_kol", "write_koh"):
        nw = bg
        for code, k in ks.items():
            nw = (nw & ~(1 << k["col"])) | (g(f"nstrobe{k['col']}") << k["col"])
        if op == "write_kol":
            m.write_kol(nw & 0xFF)
            eff = (word & 0xF00) | (nw & 0xFF)
        else:
            m.write_koh((nw >> 8) & 0xFF)
            eff = (word & 0xFF) | (nw & 0xF00)
        got = m.read_kil()
        want = ref_kil(eff, {c: k["deb"] for c, k in ks.items()})
        print("kil", got, "want", want)
        return got != want
    if op == "press_release":
        return True
    return False


def replay_rust(rec):
    """Native run of the real Rust KeyboardMatrix (replay binary, state via the public snapshot API) against a plain-Python
    reference of the keyboard rules (same rules as above; ring with explicit count; KEYI gating)."""
    from engines.rsym import build
    from pce500.keyboard_matrix import KEY_LOCATIONS

    I = {int(k): int(v) for k, v in rec["inputs"].items()}
    op, pair, ah = rec["op"], rec["pair"], rec["active_high"]
    r = build.run_replay("harness_kb_native", I, {})
    out = r["out"]
    g = lambda i: I.get(i, 0)  # noqa: E731
    word = (g(420) & 0xFF) | ((g(421) & 0xFF) << 8)
    thr_p, thr_r, rdelay, rint, rep_en = g(423) & 0xFF, g(424) & 0xFF, g(425) & 0xFF, g(426) & 0xFF, g(427) & 1
    ks = []
    for i, name in enumerate(pair):
        loc = KEY_LOCATIONS[name]
        b = 400 + 8 * i
        ks.append(dict(col=loc.column, row=loc.row, code=(loc.column << 3) | loc.row, pressed=bool(g(b) & 1), deb=bool(g(b + 1) & 1), pt=g(b + 2) & 0xFF, rt=g(b + 3) & 0xFF, rp=g(b + 4) & 0xFF))
    count = min(g(430), 8)
    head = min(g(431), 7)
    ring = [g(440 + ((head + j) % 8)) & 0xFF for j in range(count)]
    irq, isr = g(433), g(434) & 0xFF
    keyi = count > 0

    def strobed(w, col):
        bit = (w >> col) & 1
        return bit == 1 if ah else bit == 0

    def enqueue(b):
        if len(ring) == 8:
            ring.pop(0)
        ring.append(b)

    def kil(w, pred):
        v = 0
        for k in ks:
            if strobed(w, k["col"]) and pred(k):
                v |= 1 << k["row"]
        return v

    mism = []
    want_ret = None
    kil_latch = None
    a1, a2, a3 = g(451), g(452), g(453)
    if op == "scan_tick":
        n = 0
        for k in sorted(ks, key=lambda k: k["code"]):
            act = k["pressed"] and strobed(word, k["col"])
            if act:
                if not k["deb"]:
                    k["pt"] = min(k["pt"] + 1, 255)
                    if k["pt"] >= thr_p:
                        k.update(deb=True, pt=thr_p, rt=0, rp=rdelay)
                        enqueue(k["code"]); n += 1
                else:
                    k["rt"] = 0
                    if rep_en:
                        k["rp"] = max(k["rp"] - 1, 0)
                        if k["rp"] == 0:
                            k["rp"] = rint
                            enqueue(k["code"]); n += 1
            else:
                k["pt"] = 0
                if k["deb"]:
                    k["rt"] = min(k["rt"] + 1, 255)
                    if k["rt"] >= thr_r:
                        k.update(deb=False, rt=0, rp=0)
                        enqueue(k["code"] | 0x80); n += 1
            if not k["pressed"] and not k["deb"]:
                k["rp"] = 0
        want_ret = n
        if a1 & 1:
            irq += n
            if n:
                keyi = True
        if not ring:
            keyi = False
        kil_latch = kil(word, lambda k: k["deb"])
    elif op == "read_kil":
        got = out.get(1, 0x100)
        for row in range(8):
            bit = (got >> row) & 1
            may = any(k["row"] == row and strobed(word, k["col"]) and (k["pressed"] or k["deb"]) for k in ks)
            must = any(k["row"] == row and strobed(word, k["col"]) and k["pressed"] and k["deb"] for k in ks)
            if got > 0xFF or (bit and not may) or (must and not bit):
                mism.append(f"KIL read {got:#x}: row {row} bit {bit} may={may} must={must}")
        print("rust read_kil", hex(got), mism)
        return bool(mism)
    elif op == "read_other":
        want_ret = {0xF0: word & 0xFF, 0xF1: word >> 8}.get(a1 & 0xFF, 0x100)
    elif op in ("write_kol", "write_koh"):
        word = (word & 0xFF00) | (a2 & 0xFF) if op == "write_kol" else (word & 0xFF) | ((a2 & 0xFF) << 8)
        kil_latch = kil(word, lambda k: k["deb"])
        want_ret = 1
    elif op == "press":
        ks[0].update(pressed=True, pt=0, rt=0, rp=rdelay)
    elif op == "release":
        ks[0].update(pressed=False, rt=0)
    elif op.startswith("inject"):
        enqueue((a1 & 0x7F) | (0x80 if a2 & 1 else 0))
        irq += 1
        keyi = True
        if a3 & 1:
            isr |= 4
        want_ret = 1
    elif op == "write_fifo":
        if (a1 & 1) and keyi and ring:
            isr |= 4
    if want_ret is not None and out.get(1) != want_ret:
        mism.append(f"return {out.get(1)} want {want_ret}")
    if op not in ("press", "release") and not op.startswith("inject"):
        for i, k in enumerate(ks):
            got = dict(pressed=bool(out.get(100 + 8 * i)), deb=bool(out.get(101 + 8 * i)), pt=out.get(102 + 8 * i), rt=out.get(103 + 8 * i), rp=out.get(104 + 8 * i))
            want = {f: k[f] for f in got}
            if got != want:
                mism.append(f"key{i} got {got} want {want}")
    elif op in ("press", "release"):
        for i, k in enumerate(ks):
            got = dict(pressed=bool(out.get(100 + 8 * i)), deb=bool(out.get(101 + 8 * i)))
            want = {f: k[f] for f in got}
            if got != want:
                mism.append(f"key{i} got {got} want {want}")
    fifo = [out[20 + j] for j in range(8) if 20 + j in out]
    if fifo != ring or out.get(4) != len(ring):
        mism.append(f"fifo {fifo} (len {out.get(4)}) want {ring}")
    if out.get(3) != irq & 0xFFFFFFFF:
        mism.append(f"irq_count {out.get(3)} want {irq}")
    if out.get(2) != isr:
        mism.append(f"ISR {out.get(2)} want {isr}")
    if kil_latch is not None and out.get(7) != kil_latch:
        mism.append(f"KIL latch {out.get(7)} want {kil_latch}")
    if out.get(8) != word & 0xFF or out.get(9) != word >> 8:
        mism.append(f"KOL/KOH {out.get(8)},{out.get(9)} want {word & 0xFF},{word >> 8}")
    if op in ("scan_tick", "write_fifo") and bool(out.get(10, 0) & 4) != (keyi and bool(ring)):
        mism.append(f"KEYI probe {out.get(10)} want {keyi and bool(ring)}")
    print("rust", op, pair, "mismatches", mism)
    return bool(mism)
