"""Concrete replay for C12: the real PCE500Emulator.step (plain CPython) / the natively compiled CoreRuntime::step, with the
obligation re-evaluated on the concrete pre- and post-state by the same irq_spec function."""
import z3


def bv(v, n):
    return z3.BitVecVal(int(v) & ((1 << n) - 1), n)


def _violated(rec, V, O):
    from checks.irq_check import irq_obligations

    for name, neg in irq_obligations(rec["prog"], rec["power"], rec["timers"], V, O):
        if name == rec["obligation"]:
            r = z3.simplify(neg)
            print("obligation", name, "evaluates to", r)
            return z3.is_true(r)
    print("obligation not found", rec["obligation"])
    return False


def replay_python(rec):
    from checks.irq_check import PROGRAMS, PC0
    from pce500.emulator import PCE500Emulator
    from sc62015.pysc62015.emulator import RegisterName
    from sc62015.pysc62015.constants import INTERNAL_MEMORY_START as IM

    m = rec["model"]
    g = lambda k, d=0: int(m.get(k, d))  # noqa: E731
    prog, power, timers = rec["prog"], rec["power"], rec["timers"]
    emu = PCE500Emulator(trace_enabled=False, perfetto_trace=False, enable_new_tracing=False, enable_display_trace=False, save_lcd_on_exit=False)
    emu.memory.load_rom(bytes(0x3FFFA) + bytes((0x00, 0x90, 0x0B)) + bytes(3))
    program = PROGRAMS.get(prog, [0x00])
    for i, b in enumerate(program):
        emu.memory.write_byte(PC0 + i, g("imm") if b is None else b)
    for i in range(len(program), 12):
        emu.memory.write_byte(PC0 + i, 0)
    ext = emu.memory.external_memory
    for off, val in ((0xEC, 0), (0xFB, g("imr")), (0xFC, g("isr"))):
        ext[0xFFF00 + off] = val
    for i in range(10):
        ext[0xBB000 - 5 + i] = rec["st"][i]
    st0 = [emu.memory.read_byte(0xBB000 - 5 + i) for i in range(10)]
    regs = emu.cpu.regs
    regs.set(RegisterName.PC, PC0)
    regs.set(RegisterName.S, 0xBB000)
    regs.set(RegisterName.F, g("F"))
    emu._irq_pending, emu._in_interrupt, emu._key_irq_latched = bool(g("pend")), bool(g("inint")), bool(g("latch"))
    emu.cpu.state.halted = power != "running"
    emu._timer_enabled = bool(timers)
    if timers:
        sch = emu._scheduler
        for nm in ("mti_period", "sti_period", "next_mti", "next_sti"):
            setattr(sch, nm, g(nm, 1))
        sch.enabled = True
    n0, tot0 = emu.instruction_count, int(emu.irq_counts.get("total", 0))
    ok = emu.press_key("KEY_ON") if prog == "press_on" else emu.step()
    O = {"ok": bv(1 if ok else 0, 32), "pc": bv(regs.get(RegisterName.PC), 20), "s": bv(regs.get(RegisterName.S), 20), "f": bv(regs.get(RegisterName.F), 8),
         "imr": bv(emu.memory.read_byte(IM + 0xFB), 8), "isr": bv(emu.memory.read_byte(IM + 0xFC), 8), "pend": bv(bool(emu._irq_pending), 1), "inint": bv(bool(emu._in_interrupt), 1),
         "halted": bv(bool(emu.cpu.state.halted), 1), "off": bv(0, 1), "icount": bv(emu.instruction_count - n0, 32), "total": bv(int(emu.irq_counts.get("total", 0)) - tot0, 32),
         "mem": [bv(emu.memory.read_byte(0xBB000 - 5 + i), 8) for i in range(10)],
         "next_mti": bv(emu._scheduler.next_mti if timers else 0, 8), "next_sti": bv(emu._scheduler.next_sti if timers else 0, 8)}
    V = {"imr": bv(g("imr"), 8), "isr": bv(g("isr"), 8), "F": bv(g("F"), 8), "imm": bv(g("imm"), 8), "pend": bv(g("pend"), 1), "inint": bv(g("inint"), 1), "latch": bv(g("latch"), 1),
         "S": bv(0xBB000, 20), "needs_pending_flag": True, "st": [bv(x, 8) for x in st0], "vec": bv(0x0B9000, 20),
         "mt": {k: bv(g(k, 1), 8) for k in ("mti_period", "sti_period", "next_mti", "next_sti")}}
    print("python pre:", {k: g(k) for k in ("imr", "isr", "F", "imm", "pend", "inint", "latch")}, "st", st0)
    print("python post:", {k: (z3.simplify(v).as_long() if not isinstance(v, list) else [x.as_long() for x in v]) for k, v in O.items()})
    return _violated(rec, V, O)


def replay_rust(rec):
    from engines.rsym import build

    ins = {int(k): int(v) for k, v in rec["inputs"].items()}
    r = build.run_replay("harness_irq", ins, {})
    out = r["out"]
    m = rec["model"]
    g = lambda k, d=0: int(m.get(k, d))  # noqa: E731
    o = lambda i, n: bv(out.get(i, 0), n)  # noqa: E731
    O = {"ok": o(0, 32), "pc": o(1, 20), "s": o(2, 20), "f": o(3, 8), "imr": o(4, 8), "isr": o(5, 8), "pend": o(6, 1), "inint": o(7, 1), "halted": o(8, 1), "off": o(9, 1),
         "icount": o(16, 32), "total": o(20, 32), "mem": [o(30 + i, 8) for i in range(10)], "next_mti": o(17, 8), "next_sti": o(18, 8)}
    vec = ins.get(708, 0) | (ins.get(709, 0) << 8) | ((ins.get(710, 0) & 0xF) << 16)
    V = {"imr": bv(g("imr"), 8), "isr": bv(g("isr"), 8), "F": bv(g("F"), 8), "imm": bv(g("imm"), 8), "pend": bv(g("pend"), 1), "inint": bv(g("inint"), 1), "latch": bv(g("latch"), 1),
         "S": bv(0xBB000, 20), "st": [bv(ins.get(737 + i, 0), 8) for i in range(10)], "vec": bv(vec, 20),
         "mt": {k: bv(g(k, 1), 8) for k in ("mti_period", "sti_period", "next_mti", "next_sti")}}
    print("rust pre:", {k: g(k) for k in ("imr", "isr", "F", "imm", "pend", "inint", "latch")}, "vec", hex(vec), "rc", r["rc"])
    print("rust post:", {k: (z3.simplify(v).as_long() if not isinstance(v, list) else [x.as_long() for x in v]) for k, v in O.items()})
    return _violated(rec, V, O)


def replay(rec):
    return replay_rust(rec) if rec.get("rust") else replay_python(rec)
