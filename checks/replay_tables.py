"""Concrete replay for C17: the natively compiled harness (real crate) and the real Python modules, compared directly."""


def replay(rec):
    from engines.rsym import build
    from checks import tables_check as T

    what = rec["what"]
    if what == "opcode":
        exp, _kinds = T.expected_entries()
        op = rec["opcode"]
        e = exp[op]
        out = build.run_replay("harness_opcode_entry", {600: op}, {})["out"]
        got = {"kind": out.get(1), "name": bytes(out.get(10 + i, 0) for i in range(out.get(2, 0))).decode("latin1"),
               "cond": bytes(out.get(30 + i, 0) for i in range(max(out.get(3, 0) - 1, 0))).decode("latin1") if out.get(3) else None,
               "rev": out.get(4), "ops": [(out.get(40 + 3 * i), out.get(41 + 3 * i), out.get(42 + 3 * i)) for i in range(out.get(5, 0))]}
        want = {"kind": e["kind"], "name": e["name"], "cond": e["cond"], "rev": e["rev"], "ops": [tuple(o) for o in e["ops"]]}
        print(f"opcode {op:#04x}: rust {got}\n             python-derived {want}")
        return got != want or out.get(0) != op
    if what == "decoder-name":
        return True
    # registers / constants / views: recompute on concrete data
    res = {"paths": 0, "obligations": 0, "discharged": 0, "unknown": 0, "cex": [], "solver_time": 0.0, "samples": [], "inconclusive": []}
    import checks.isa_exec as X

    X.setup()
    if what == "view":
        T.check_views(res)
    else:
        T.check_registers_and_constants(res)
    keys = [k for k, _s, _p in res["cex"]]
    print("recomputed violations:", keys)
    return rec["key"] in keys
