"""C11 (Python machine model): the memory bus behaves like memory.

One store followed by one load through the real ``PCE500Memory`` at arbitrary symbolic 32-bit
addresses, from an arbitrary backing store (z3 arrays behind external_memory, card data, ROM and
RAM overlays), per memory configuration; z3 decides the memmap_spec obligations (this file):
write/read coherence per canonical cell, no other cell changes, internal and external memory never
alias, ROM / read-only windows are immutable, multi-byte accesses are little-endian compositions of
byte accesses.
"""
from __future__ import annotations

import sys
import time

import z3

from . import common
from . import isa_exec as X
from engines.pysym import core
from engines.pysym.core import SymInt, explore
from engines.pysym.containers import SymArrayBytes

CONFIGS = ["default", "rom-full", "rom-short", "card-absent", "card-8k", "card-readonly", "ram-overlay"]
LCD_KBD_NOTE = "device windows (LCD 0x2000-0x200F/0xA000-0xAFFF, keyboard 0x1000F0-0x1000F2) are not configured here: C14/C15"


def bv(v, n):
    return z3.BitVecVal(v, n)


def build(config):
    from pce500.memory import PCE500Memory

    m = PCE500Memory()
    store = {"E": SymArrayBytes("ext0", 1024 * 1024)}
    m.external_memory = store["E"]
    cfg = {"rom_len": 0, "card_present": True, "card_len": 65536, "card_writable": True, "ram": None}
    if config in ("rom-full", "rom-short"):
        ln = 0x40000 if config == "rom-full" else 0x1000
        rom = SymArrayBytes("rom0", ln)
        m.load_rom(rom)
        for ov in m.overlays:
            if ov.name == "internal_rom":
                ov.data = rom
        store["R"] = rom
        cfg["rom_len"] = ln
    if config == "card-absent":
        m.set_memory_card_present(False)
        cfg["card_present"] = False
    if config == "card-8k":
        m.load_memory_card(b"", 8192)
        cfg["card_len"] = 8192
    if config == "card-readonly":
        m.load_memory_card(b"", 65536, writable=False)
        cfg["card_writable"] = False
    card = SymArrayBytes("card0", cfg["card_len"])
    m._card_data = card
    store["C"] = card
    if config == "ram-overlay":
        m.add_ram(0x80000, 0x8000, "ram_expansion")
        ram = SymArrayBytes("ram0", 0x8000)
        for ov in m.overlays:
            if ov.name == "ram_expansion":
                ov.data = ram
        store["A"] = ram
        cfg["ram"] = (0x80000, 0x8000)
    return m, store, cfg


# ------------------------------------------------------------------ memmap_spec


def cell(cfg, a32):
    """Canonical cell of a 32-bit address -> (kind BV8, index BV32, writable Bool, reads_zero Bool).
    kinds: 1 internal, 2 external RAM, 3 card, 4 ROM image, 5 RAM overlay, 6 'reads zero, ignores writes'."""
    a24 = a32 & 0xFFFFFF
    internal = z3.UGE(a24, bv(0x100000, 32))
    ioff = (a24 - 0x100000) & 0xFF
    e = a24 & 0xFFFFF
    in_card = z3.And(z3.UGE(e, bv(0x40000, 32)), z3.ULE(e, bv(0x4FFFF, 32)))
    coff = e - 0x40000
    card_ok = z3.And(in_card, z3.BoolVal(cfg["card_present"]), z3.ULT(coff, bv(cfg["card_len"], 32)))
    card_zero = z3.And(in_card, z3.Not(card_ok))
    in_rom = z3.And(z3.BoolVal(cfg["rom_len"] > 0), z3.UGE(e, bv(0xC0000, 32)))
    roff = e - 0xC0000
    rom_img = z3.And(in_rom, z3.ULT(roff, bv(cfg["rom_len"], 32)))
    if cfg["ram"]:
        rs, rl = cfg["ram"]
        in_ram = z3.And(z3.UGE(e, bv(rs, 32)), z3.ULT(e, bv(rs + rl, 32)))
        aoff = e - rs
    else:
        in_ram = z3.BoolVal(False)
        aoff = bv(0, 32)
    kind = z3.If(internal, bv(1, 8), z3.If(card_ok, bv(3, 8), z3.If(card_zero, bv(6, 8), z3.If(rom_img, bv(4, 8), z3.If(in_ram, bv(5, 8), bv(2, 8))))))
    idx = z3.If(internal, ioff, z3.If(card_ok, coff, z3.If(card_zero, bv(0, 32), z3.If(rom_img, roff, z3.If(in_ram, aoff, e)))))
    writable = z3.If(internal, z3.BoolVal(True), z3.If(in_card, z3.And(card_ok, z3.BoolVal(cfg["card_writable"])),
                                                           z3.If(in_rom, z3.BoolVal(False), z3.BoolVal(True))))
    return kind, idx, writable


def initial_value(cfg, store, kind, idx, internal_arr):
    v = z3.Select(store["E"].arr, idx)
    v = z3.If(kind == 1, z3.Select(internal_arr, idx), v)
    v = z3.If(kind == 3, z3.Select(store["C"].arr, idx), v)
    v = z3.If(kind == 6, bv(0, 8), v)
    if "R" in store:
        v = z3.If(kind == 4, z3.Select(store["R"].arr, idx), v)
    if "A" in store:
        v = z3.If(kind == 5, z3.Select(store["A"].arr, idx), v)
    return v


def run_case(item):
    tier, (config, op) = item
    X.setup()
    key = f"{config}:{op}"
    res = {"key": key, "paths": 0, "obligations": 0, "discharged": 0, "unknown": 0, "cex": [], "solver_time": 0.0, "samples": [], "inconclusive": []}
    width = {"byte": 1, "word": 2, "long": 3, "bytes3": 3}[op]

    def fn():
        m, store, cfg = build(config)
        a, a2 = SymInt.var("a", 32), SymInt.var("a2", 32)
        v = SymInt.var("v", 8 * width)
        # the internal memory as an independent store: initial contents from its own array
        # (the implementation keeps it somewhere of its choosing; the spec only sees cells)
        before = m.read_byte(a2)
        if op == "byte":
            m.write_byte(a, v)
        elif op == "word":
            m.write_word(a, v)
        elif op == "long":
            m.write_long(a, v)
        else:
            m.write_bytes(3, a, v)
        after = m.read_byte(a2)
        out = {"cfg": cfg, "store": store, "before": before, "after": after}
        if op != "byte":
            out["multi"] = {"word": m.read_word, "long": m.read_long}.get(op, lambda x: m.read_bytes(x, 3))(a2)
            out["parts"] = [m.read_byte(a2 + i) for i in range(width)]
        return out

    try:
        paths, stats = explore(fn, max_paths=20000, deadline_s=300)
    except core.PathLimit as e:
        res["inconclusive"].append(str(e))
        return res
    res["paths"] = len(paths)
    res["solver_time"] += stats.solver_time
    A, A2 = z3.BitVec("a", 32), z3.BitVec("a2", 32)
    V = z3.BitVec("v", 8 * width)
    for p in paths:
        if p.status != "ok":
            if p.status == "inconclusive":
                res["inconclusive"].append(p.detail[:100])
            else:
                res["cex"].append({"key": f"{key}|raises|{type(p.exc).__name__}", "summary": repr(p.exc)[:200], "payload": None})
            continue
        v = p.value
        cfg = v["cfg"]
        k2, i2, w2 = cell(cfg, A2)
        before = core.term_of(v["before"], 8)
        after = core.term_of(v["after"], 8)
        # expected value after the store(s): last matching written byte, else the value before
        want = before
        hit_any = z3.BoolVal(False)
        for i in range(width):
            ki, ii, wi = cell(cfg, A + i)
            hit = z3.And(ki == k2, ii == i2, wi)
            want = z3.If(hit, z3.Extract(8 * i + 7, 8 * i, V), want)
            hit_any = z3.Or(hit_any, hit)
        checks = [("write-then-read (same cell reads the value, every other cell unchanged)", after != want)]
        # cells of different kinds never alias (in particular internal vs external)
        k1, i1, w1 = cell(cfg, A)
        if op == "byte":
            checks.append(("internal and external memory never alias", z3.And(z3.Or(z3.And(k1 == 1, k2 != 1), z3.And(k1 != 1, k2 == 1)), after != before)))
            checks.append(("read-only cells never change", z3.And(z3.Not(w2), after != before)))
            # all aliases of the written location read the same: a2 = a + k*2^24 and the internal 256-byte wrap
            checks.append(("24-bit aliases read the same", z3.And((A & 0xFFFFFF) == (A2 & 0xFFFFFF), w1, after != z3.Extract(7, 0, V))))
        else:
            parts = [core.term_of(x, 8) for x in v["parts"]]
            comp = z3.Concat(*reversed(parts))
            checks.append(("multi-byte load is the little-endian composition of byte loads", core.term_of(v["multi"], 8 * width) != comp))
        for name, neg in checks:
            res["obligations"] += 1
            r_, m_, dt = X.solve(p.constraints, [neg])
            res["solver_time"] += dt
            if r_ == "unsat":
                res["discharged"] += 1
                if len(res["samples"]) < 1:
                    res["samples"].append({"case": key, "obligation": name, "negated_post_head": neg.sexpr()[:140]})
            elif r_ == "sat":
                ev = lambda t: m_.eval(t, model_completion=True).as_long()  # noqa: E731
                a_, a2_ = ev(A), ev(A2)
                stores = {}
                for nm, sa in v["store"].items():
                    d, ent = X.array_image(m_, z3.Array(sa.name, z3.BitVecSort(32), z3.BitVecSort(8)))
                    stores[nm] = {"default": d, "entries": {str(k_): b for k_, b in ent.items() if k_ < sa.length}}
                payload = {"property": "C11", "kind": "membus", "key": f"{key}|{name}", "config": config, "op": op, "a": a_, "a2": a2_, "v": ev(V),
                           "stores": stores, "obligation": name}
                kk = lambda t: {1: "internal", 2: "external", 3: "card", 4: "rom", 5: "ram-overlay", 6: "card-void"}[ev(t)]  # noqa: E731
                def backing(x):
                    x24 = x & 0xFFFFFF
                    return any(((x24 + i) & 0xFFFFFF) < 0x100000 and ((x24 + i) & 0xFFFFF) >= 0xFFF00 for i in range(width))
                win = "win=internal-backing" if (backing(a_) or backing(a2_)) else "win=other"
                res["cex"].append({"key": f"{config}|{op}|{name.split(' (')[0]}|write {kk(k1)} read {kk(k2)}|{win}", "summary": f"{key}: a={a_:#x} a2={a2_:#x}", "payload": payload})
            else:
                res["unknown"] += 1
    return res


def main(tier):
    t0 = time.time()
    X.setup()
    rep = common.Report("C11")
    configs = CONFIGS if tier == "thorough" else ["default", "rom-full", "rom-short", "card-absent", "card-8k", "card-readonly", "ram-overlay"]
    ops = ["byte", "word", "long", "bytes3"] if tier == "thorough" else ["byte", "long"]
    cases = [(c, o) for c in configs for o in ops]
    from engines.rsym import build

    build.ensure_built()
    build.image()
    rs_ops = ["byte", "word", "long", "load-word", "load-long"]
    rs_cases = [(c, o) for c in RS_CONFIGS for o in rs_ops]
    rs_cases.sort(key=lambda c: 0 if c[1] == "long" else 1)
    results = common.pool_map(run_rust_case, [(tier, c) for c in rs_cases]) + common.pool_map(run_case, [(tier, c) for c in cases])
    cases = cases + [("rust:" + c, o) for c, o in rs_cases]
    tot = {k: 0 for k in ("paths", "obligations", "discharged", "unknown")}
    solver_time = 0.0
    samples, inconcl, cex = [], [], {}
    for r in results:
        if "fatal" in r:
            rep.harness_errors.append(f"{r['item']}: {r['fatal']}\n{r.get('tb', '')}")
            continue
        for k in tot:
            tot[k] += r[k]
        solver_time += r["solver_time"]
        if len(samples) < 8:
            samples += r["samples"]
        inconcl += r["inconclusive"]
        for c in r["cex"]:
            cex.setdefault(c["key"], c)
    for k, c in sorted(cex.items()):
        if c["payload"] is None:
            rep.harness_errors.append(f"{k}: {c['summary']}")
        else:
            rep.counterexample(k, c["payload"], c["summary"])
    if tot["obligations"] < 100:
        rep.harness_errors.append(f"vacuity guard: only {tot['obligations']} obligations")
    if tot["unknown"] or inconcl:
        rep.harness_errors.append(f"inconclusive: {tot['unknown']} {inconcl[:3]}")
    code = rep.finish()
    wall = time.time() - t0
    coverage = {
        "obligations": tot["obligations"], "discharged": tot["discharged"], "evaluations": tot["paths"], "distinct_nontrivial": len(cases),
        "rule": "one symbolic store + load per (memory configuration, access width) from an arbitrary backing store; addresses are symbolic 32-bit values",
        "samples": samples[:8], "checker_cmd": "./check C11 --tier " + tier, "trusted_base": ["z3 5.1.0", "engines/pysym", "memmap_spec in checks/membus_check.py"],
        "explanation": "Inductive step over arbitrary stores: z3 decides for all 32-bit addresses a, a2 and values that a load after a store returns the stored byte iff both addresses denote the same writable canonical cell and the previous value otherwise; internal and external cells never influence each other; read-only cells never change; multi-byte accesses are little-endian compositions.",
        "solver_time_s": round(solver_time, 2),
        "functions_encoded": ["pce500.memory.PCE500Memory.read_byte/write_byte/read_word/write_word/read_long/write_long/read_bytes/write_bytes/load_rom/add_ram/load_memory_card",
                              "pce500.memory_bus.MemoryBus.read/write/_read_from_overlay/_write_to_overlay",
                              "Rust (LLVM IR): sc62015_core::memory::MemoryImage::new/load_internal/load/load_with_pc/store/store_with_pc/load_internal_value/store_internal_value/load_overlay_value/store_overlay_value/mirror_internal_ram_address/is_read_only_range/add_ram_overlay/add_rom_overlay/load_memory_card/set_memory_card_slot_present/set_internal_ram_mirror, MemoryOverlay::contains/read/write, pce500::configure_pce500_memory_map"],
        "bounds": {"history": "1 store + 1 load from an arbitrary store (induction over access histories)", "configurations": configs,
                   "rust_configurations": list(RS_CONFIGS),
                   "outside": LCD_KBD_NOTE + "; Rust: python_ranges/requires_python routing, the IMR/ISR hook, write capture and access logs are bookkeeping outside the memory law; read_byte() (an overlay-blind debug accessor) is not checked"},
        "known_findings_hit": {k: len(v) for k, v in rep.known_hits.items()},
    }
    assumptions = ["Rust: the 1 MiB external vector, card / ROM / RAM overlay buffers start with arbitrary contents (allocations of those sizes are symbolic arrays); internal memory is loaded from 256 symbolic bytes",
                   "backing stores (external_memory, card data, ROM image, RAM overlay data) replaced by z3-array-backed byte containers of the same length",
                   "no CPU / tracer attached (cpu_pc None): the tracing side channels are disabled, their normal state"]
    common.write_evidence("C11", tier, "other", coverage, assumptions, wall, len(rep.violations))
    print(f"C11 {tier}: cases={len(cases)} paths={tot['paths']} obligations={tot['obligations']} discharged={tot['discharged']} cex={len(cex)} solver={solver_time:.1f}s wall={wall:.1f}s")
    return code


# ------------------------------------------------------------------ Rust half (sc62015_core::memory::MemoryImage via rsym)

RS_CONFIGS = {"default": 0, "pce500": 1, "pce500-mirror": 2, "pce500-card8k": 3, "pce500-card-absent": 4, "ram-overlay": 5, "rom-overlay": 6}
RS_ALLOC = {0x100000: "ext", 8192: "card", 0x8000: "ram", 0x1000: "rom"}


def rs_cell(config, a32):
    """Canonical cell of the Rust MemoryImage -> (kind BV8, index BV32, writable Bool).
    kinds: 1 internal, 2 external, 3 card data, 5 RAM overlay, 4 ROM overlay, 6 reads zero / ignores writes."""
    a24 = a32 & 0xFFFFFF
    internal = z3.And(z3.UGE(a24, bv(0x100000, 32)), z3.ULT(a24, bv(0x100100, 32)))
    ioff = a24 - 0x100000
    # external: 1 MiB wrap; with the RAM mirror on, 0x80000-0xBFFFF folds onto the 32 KiB internal RAM at 0xB8000
    if config == "pce500-mirror":
        in_mirror = z3.And(z3.UGE(a24, bv(0x80000, 32)), z3.ULE(a24, bv(0xBFFFF, 32)))
        phys = z3.If(in_mirror, bv(0xB8000, 32) + (a24 & 0x7FFF), a24)
    else:
        phys = a24
    e = phys & 0xFFFFF
    kind, idx, writable = bv(2, 8), e, z3.BoolVal(True)
    if config.startswith("pce500"):
        # writability belongs to the cell, not to the alias it is reached through
        ro = z3.Or(z3.ULE(e, bv(0x3FFFF, 32)), z3.And(z3.UGE(e, bv(0xC0000, 32)), z3.ULE(e, bv(0xFFFFF, 32))))
        writable = z3.Not(ro)
    def overlay(start, length, k, wr):
        nonlocal kind, idx, writable
        inside = z3.And(z3.UGE(a24, bv(start, 32)), z3.ULT(a24, bv(start + length, 32)))
        kind = z3.If(inside, bv(k, 8), kind)
        idx = z3.If(inside, a24 - start, idx)
        writable = z3.If(inside, z3.BoolVal(wr), writable)
    if config == "pce500-card8k":
        overlay(0x40000, 8192, 3, True)
    if config == "pce500-card-absent":
        overlay(0x40000, 0x10000, 6, False)
    if config == "ram-overlay":
        overlay(0x80000, 0x8000, 5, True)
    if config == "rom-overlay":
        overlay(0xC0000, 0x1000, 4, False)
    kind = z3.If(internal, bv(1, 8), kind)
    idx = z3.If(internal, ioff, idx)
    writable = z3.If(internal, z3.BoolVal(True), writable)
    return kind, idx, writable


def rs_initial(kind, idx, arrs):
    v = z3.Select(arrs["ext"], z3.ZeroExt(32, idx))
    v = z3.If(kind == 1, z3.Select(arrs["imem"], z3.Extract(7, 0, idx)), v)
    for k, nm in ((3, "card"), (5, "ram"), (4, "rom")):
        v = z3.If(kind == k, z3.Select(arrs[nm], z3.ZeroExt(32, idx)), v)
    return z3.If(kind == 6, bv(0, 8), v)


def run_rust_case(item):
    tier, (config, op) = item
    X.setup()
    from engines.rsym import build, interp

    img, _b = build.image()
    key = f"rust:{config}:{op}"
    res = {"key": key, "paths": 0, "obligations": 0, "discharged": 0, "unknown": 0, "cex": [], "solver_time": 0.0, "samples": [], "inconclusive": []}
    mode, width = (0, {"byte": 1, "word": 2, "long": 3}[op]) if not op.startswith("load-") else (1, {"load-word": 2, "load-long": 3}[op])
    A, A2, V = z3.BitVec("a", 32), z3.BitVec("a2", 32), z3.BitVec("v", 8 * width)
    imem = z3.Array("imem", z3.BitVecSort(8), z3.BitVecSort(8))
    arrs = {"imem": imem}
    for nm in ("ext", "card", "ram", "rom"):
        arrs[nm] = z3.Array(nm, z3.BitVecSort(64), z3.BitVecSort(8))
    ins = {500: RS_CONFIGS[config], 501: A, 502: 8 * width, 503: z3.ZeroExt(32 - 8 * width, V) if width < 4 else V, 504: A2, 509: 0, 510: mode}
    for i in range(256):
        ins[2000 + i] = z3.ZeroExt(24, z3.Select(imem, bv(i, 8)))

    def fn():
        out = {}

        def vout(m, i, v):
            if i == 99:
                where = {}
                for a, c in m.mem.items():
                    if type(c) is int or a < interp.HEAP_BASE or a >= m.heap:
                        continue
                    t = z3.simplify(c if type(c) is not tuple else z3.Extract(8 * c[1] + 7, 8 * c[1], c[0]))
                    if t.decl().kind() == z3.Z3_OP_SELECT and str(t.arg(0)) == "imem" and z3.is_bv_value(t.arg(1)):
                        where.setdefault(t.arg(1).as_long(), []).append(a)
                if sorted(where) != list(range(256)) or any(len(x) != 1 for x in where.values()) or any(where[k][0] != where[0][0] + k for k in range(256)):
                    raise RuntimeError("internal memory block not located as 256 contiguous live bytes")
                m.adopt_array(where[0][0], 256, lambda off: z3.Select(imem, z3.Extract(7, 0, off)))
            else:
                out[i] = v

        hooks = {"verif_in": lambda m, i: ins.get(i, 0), "verif_out": vout, "verif_load": lambda m, a: 0, "verif_store": lambda m, a, v: None}
        m = interp.Machine(img, hooks)
        m.array_mode = True
        m.merge_tables = True
        m.STEP_LIMIT = 20_000_000
        m.symbolic_alloc = dict(RS_ALLOC)
        m.run(img.mod.functions["harness_mem"], [])
        return out, m.steps

    try:
        paths, stats = explore(fn, max_paths=6000, deadline_s=900, timeout_ms=10000)
    except core.PathLimit as e:
        res["inconclusive"].append(str(e))
        return res
    res["paths"] = len(paths)
    res["solver_time"] += stats.solver_time
    T = interp.to_term
    for p in paths:
        if p.status != "ok":
            if p.status == "inconclusive":
                res["inconclusive"].append(p.detail[:100])
            else:
                res["cex"].append({"key": f"{key}|raises|{type(p.exc).__name__}", "summary": repr(p.exc)[:200], "payload": None})
            continue
        out, steps = p.value
        checks = []
        k2, i2, w2 = rs_cell(config, A2)
        if mode == 0:
            before, after = T(out[10], 32), T(out[20], 32)
            init = z3.ZeroExt(24, rs_initial(k2, i2, arrs))
            checks.append(("load returns the cell's contents", before != init))
            want = before
            for i in range(width):
                ki, ii, wi = rs_cell(config, A + i)
                hit = z3.And(ki == k2, ii == i2, wi)
                want = z3.If(hit, z3.ZeroExt(24, z3.Extract(8 * i + 7, 8 * i, V)), want)
            checks.append(("write-then-read (same cell reads the value, every other cell unchanged)", after != want))
            k1, i1, w1 = rs_cell(config, A)
            if op == "byte":
                checks.append(("internal and external memory never alias", z3.And(z3.Or(z3.And(k1 == 1, k2 != 1), z3.And(k1 != 1, k2 == 1)), after != before)))
                checks.append(("read-only cells never change", z3.And(z3.Not(w2), after != before)))
                checks.append(("24-bit aliases read the same", z3.And((A & 0xFFFFFF) == (A2 & 0xFFFFFF), w1, after != z3.ZeroExt(24, z3.Extract(7, 0, V)))))
            else:
                # multi-byte stores as well: whatever else a store that runs into a read-only window does, that window does not change
                checks.append(("read-only cells never change", z3.And(z3.Not(w2), after != before)))
            checks.append(("store is accepted", T(out[1], 32) != 1))
        else:
            comp = z3.Concat(*reversed([z3.Extract(7, 0, T(out[40 + i], 32)) for i in range(width)]))
            checks.append(("multi-byte load is the little-endian composition of byte loads", z3.Extract(8 * width - 1, 0, T(out[30], 32)) != comp))
            checks.append(("byte loads return a value", z3.Or(*[z3.UGT(T(out[40 + i], 32), 0xFF) for i in range(width)])))
        # every obligation is decided separately for three classes of accesses, so that a known defect of one class never hides
        # a violation in another: accesses whose bytes all lie in one region at consecutive cells ("uniform"), reached through
        # addresses below 0x100100 ("lo") or through a higher 24-bit alias ("hi-alias"), and accesses that cross a region boundary
        base = A if mode == 0 else A2
        k0, i0, w0 = rs_cell(config, base)
        strad = z3.BoolVal(False)
        for i in range(1, width):
            ki, ii, wi = rs_cell(config, base + i)
            strad = z3.Or(strad, ki != k0, wi != w0, ii != i0 + i)
        hi = z3.Or(z3.UGE(A & 0xFFFFFF, bv(0x100100, 32)) if mode == 0 else z3.BoolVal(False), z3.UGE(A2 & 0xFFFFFF, bv(0x100100, 32)))
        classes = [("uniform,lo", z3.And(z3.Not(strad), z3.Not(hi))), ("uniform,hi-alias", z3.And(z3.Not(strad), hi))]
        if width > 1:
            classes.append(("straddle,lo", z3.And(strad, z3.Not(hi))))
            classes.append(("straddle,hi-alias", z3.And(strad, hi)))
        for name, neg0 in checks:
          for cname, cpred in classes:
            neg = z3.And(neg0, cpred)
            res["obligations"] += 1
            r_, m_, dt = X.solve(p.constraints, [neg])
            res["solver_time"] += dt
            if r_ == "unsat":
                res["discharged"] += 1
                if len(res["samples"]) < 1:
                    res["samples"].append({"case": key, "obligation": name, "class": cname, "rust_ir_steps": steps, "negated_post_head": neg.sexpr()[:140]})
            elif r_ == "sat":
                ev = lambda t: m_.eval(t, model_completion=True).as_long()  # noqa: E731
                stores = {}
                for nm, arr in arrs.items():
                    d, ent = X.array_image(m_, arr)
                    stores[nm] = {"default": d, "entries": {str(k_): b for k_, b in list(ent.items())[:64]}}
                a_, a2_ = ev(A), ev(A2)
                kk = lambda t: {1: "internal", 2: "external", 3: "card", 4: "rom-overlay", 5: "ram-overlay", 6: "card-void"}[ev(t)]  # noqa: E731
                payload = {"property": "C11", "kind": "membus", "rust": True, "key": f"{key}|{name}", "config": config, "op": op, "a": a_, "a2": a2_, "v": ev(V), "stores": stores, "obligation": name}
                cls = f"write {kk(rs_cell(config, A)[0])} read {kk(k2)}" if mode == 0 else f"read {kk(k2)}"
                res["cex"].append({"key": f"{key}|{name.split(' (')[0]}|{cls}|{cname}", "summary": f"{key}: {name} a={a_:#x} a2={a2_:#x} v={ev(V):#x}", "payload": payload})
            else:
                res["unknown"] += 1
    return res
