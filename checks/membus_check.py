"""C11 (Python machine model): the memory bus behaves like memory.

One store followed by one load through the real ``PCE500Memory`` at arbitrary symbolic 32-bit
addresses, from an arbitrary backing store (z3 arrays behind external_memory, card data, ROM and
RAM overlays), per memory configuration; z3 decides the memmap_spec obligations (this file):
write/read coherence per canonical cell, no other cell changes, internal and external memory never
alias, ROM / read-only windows are immutable, multi-byte accesses are little-endian compositions of
byte accesses.
"""
from __future__ import annotations

import sys
import time

import z3

from . import common
from . import isa_exec as X
from engines.pysym import core
from engines.pysym.core import SymInt, explore
from engines.pysym.containers import SymArrayBytes

CONFIGS = ["default", "rom-full", "rom-short", "card-absent", "card-8k", "card-readonly", "ram-overlay"]
LCD_KBD_NOTE = "device windows (LCD 0x2000-0x200F/0xA000-0xAFFF, keyboard 0x1000F0-0x1000F2) are not configured here: C14/C15"


def bv(v, n):
    return z3.BitVecVal(v, n)


def build(config):
    from pce500.memory import PCE500Memory

    m = PCE500Memory()
    store = {"E": SymArrayBytes("ext0", 1024 * 1024)}
    m.external_memory = store["E"]
    cfg = {"rom_len": 0, "card_present": True, "card_len": 65536, "card_writable": True, "ram": None}
    if config in ("rom-full", "rom-short"):
        ln = 0x40000 if config == "rom-full" else 0x1000
        rom = SymArrayBytes("rom0", ln)
        m.load_rom(rom)
        for ov in m.overlays:
            if ov.name == "internal_rom":
                ov.data = rom
        store["R"] = rom
        cfg["rom_len"] = ln
    if config == "card-absent":
        m.set_memory_card_present(False)
        cfg["card_present"] = False
    if config == "card-8k":
        m.load_memory_card(b"", 8192)
        cfg["card_len"] = 8192
    if config == "card-readonly":
        m.load_memory_card(b"", 65536, writable=False)
        cfg["card_writable"] = False
    card = SymArrayBytes("card0", cfg["card_len"])
    m._card_data = card
    store["C"] = card
    if config == "ram-overlay":
        m.add_ram(0x80000, 0x8000, "ram_expansion")
        ram = SymArrayBytes("ram0", 0x8000)
        for ov in m.overlays:
            if ov.name == "ram_expansion":
                ov.data = ram
        store["A"] = ram
        cfg["ram"] = (0x80000, 0x8000)
    return m, store, cfg


# ------------------------------------------------------------------ memmap_spec


def cell(cfg, a32):
    """Canonical cell of a 32-bit address -> (kind BV8, index BV32, writable Bool, reads_zero Bool).
    kinds: 1 internal, 2 external RAM, 3 card, 4 ROM image, 5 RAM overlay, 6 'reads zero, ignores writes'."""
    a24 = a32 & 0xFFFFFF
    internal = z3.UGE(a24, bv(0x100000, 32))
    ioff = (a24 - 0x100000) & 0xFF
    e = a24 & 0xFFFFF
    in_card = z3.And(z3.UGE(e, bv(0x40000, 32)), z3.ULE(e, bv(0x4FFFF, 32)))
    coff = e - 0x40000
    card_ok = z3.And(in_card, z3.BoolVal(cfg["card_present"]), z3.ULT(coff, bv(cfg["card_len"], 32)))
    card_zero = z3.And(in_card, z3.Not(card_ok))
    in_rom = z3.And(z3.BoolVal(cfg["rom_len"] > 0), z3.UGE(e, bv(0xC0000, 32)))
    roff = e - 0xC0000
    rom_img = z3.And(in_rom, z3.ULT(roff, bv(cfg["rom_len"], 32)))
    if cfg["ram"]:
        rs, rl = cfg["ram"]
        in_ram = z3.And(z3.UGE(e, bv(rs, 32)), z3.ULT(e, bv(rs + rl, 32)))
        aoff = e - rs
    else:
        in_ram = z3.BoolVal(False)
        aoff = bv(0, 32)
    kind = z3.If(internal, bv(1, 8), z3.If(card_ok, bv(3, 8), z3.If(card_zero, bv(6, 8), z3.If(rom_img, bv(4, 8), z3.If(in_ram, bv(5, 8), bv(2, 8))))))
    idx = z3.If(internal, ioff, z3.If(card_ok, coff, z3.If(card_zero, bv(0, 32), z3.If(rom_img, roff, z3.If(in_ram, aoff, e)))))
    writable = z3.If(internal, z3.BoolVal(True), z3.If(in_card, z3.And(card_ok, z3.BoolVal(cfg["card_writable"])),
                                                           z3.If(in_rom, z3.BoolVal(False), z3.BoolVal(True))))
    return kind, idx, writable


def initial_value(cfg, store, kind, idx, internal_arr):
    v = z3.Select(store["E"].arr, idx)
    v = z3.If(kind == 1, z3.Select(internal_arr, idx), v)
    v = z3.If(kind == 3, z3.Select(store["C"].arr, idx), v)
    v = z3.If(kind == 6, bv(0, 8), v)
    if "R" in store:
        v = z3.If(kind == 4, z3.Select(store["R"].arr, idx), v)
    if "A" in store:
        v = z3.If(kind == 5, z3.Select(store["A"].arr, idx), v)
    return v


def run_case(item):
    tier, (config, op) = item
    X.setup()
    key = f"{config}:{op}"
    res = {"key": key, "paths": 0, "obligations": 0, "discharged": 0, "unknown": 0, "cex": [], "solver_time": 0.0, "samples": [], "inconclusive": []}
    width = {"byte": 1, "word": 2, "long": 3, "bytes3": 3}[op]

    def fn():
        m, store, cfg = build(config)
        a, a2 = SymInt.var("a", 32), SymInt.var("a2", 32)
        v = SymInt.var("v", 8 * width)
        # the internal memory as an independent store: initial contents from its own array
        # (the implementation keeps it somewhere of its choosing; the spec only sees cells)
        before = m.read_byte(a2)
        if op == "byte":
            m.write_byte(a, v)
        elif op == "word":
            m.write_word(a, v)
        elif op == "long":
            m.write_long(a, v)
        else:
            m.write_bytes(3, a, v)
        after = m.read_byte(a2)
        out = {"cfg": cfg, "store": store, "before": before, "after": after}
        if op != "byte":
            out["multi"] = {"word": m.read_word, "long": m.read_long}.get(op, lambda x: m.read_bytes(x, 3))(a2)
            out["parts"] = [m.read_byte(a2 + i) for i in range(width)]
        return out

    try:
        paths, stats = explore(fn, max_paths=20000, deadline_s=300)
    except core.PathLimit as e:
        res["inconclusive"].append(str(e))
        return res
    res["paths"] = len(paths)
    res["solver_time"] += stats.solver_time
    A, A2 = z3.BitVec("a", 32), z3.BitVec("a2", 32)
    V = z3.BitVec("v", 8 * width)
    for p in paths:
        if p.status != "ok":
            if p.status == "inconclusive":
                res["inconclusive"].append(p.detail[:100])
            else:
                res["cex"].append({"key": f"{key}|raises|{type(p.exc).__name__}", "summary": repr(p.exc)[:200], "payload": None})
            continue
        v = p.value
        cfg = v["cfg"]
        k2, i2, w2 = cell(cfg, A2)
        before = core.term_of(v["before"], 8)
        after = core.term_of(v["after"], 8)
        # expected value after the store(s): last matching written byte, else the value before
        want = before
        hit_any = z3.BoolVal(False)
        for i in range(width):
            ki, ii, wi = cell(cfg, A + i)
            hit = z3.And(ki == k2, ii == i2, wi)
            want = z3.If(hit, z3.Extract(8 * i + 7, 8 * i, V), want)
            hit_any = z3.Or(hit_any, hit)
        checks = [("write-then-read (same cell reads the value, every other cell unchanged)", after != want)]
        # cells of different kinds never alias (in particular internal vs external)
        k1, i1, w1 = cell(cfg, A)
        if op == "byte":
            checks.append(("internal and external memory never alias", z3.And(z3.Or(z3.And(k1 == 1, k2 != 1), z3.And(k1 != 1, k2 == 1)), after != before)))
            checks.append(("read-only cells never change", z3.And(z3.Not(w2), after != before)))
            # all aliases of the written location read the same: a2 = a + k*2^24 and the internal 256-byte wrap
            checks.append(("24-bit aliases read the same", z3.And((A & 0xFFFFFF) == (A2 & 0xFFFFFF), w1, after != z3.Extract(7, 0, V))))
        else:
            parts = [core.term_of(x, 8) for x in v["parts"]]
            comp = z3.Concat(*reversed(parts))
            checks.append(("multi-byte load is the little-endian composition of byte loads", core.term_of(v["multi"], 8 * width) != comp))
        for name, neg in checks:
            res["obligations"] += 1
            r_, m_, dt = X.solve(p.constraints, [neg])
            res["solver_time"] += dt
            if r_ == "unsat":
                res["discharged"] += 1
                if len(res["samples"]) < 1:
                    res["samples"].append({"case": key, "obligation": name, "negated_post_head": neg.sexpr()[:140]})
            elif r_ == "sat":
                ev = lambda t: m_.eval(t, model_completion=True).as_long()  # noqa: E731
                a_, a2_ = ev(A), ev(A2)
                stores = {}
                for nm, sa in v["store"].items():
                    d, ent = X.array_image(m_, z3.Array(sa.name, z3.BitVecSort(32), z3.BitVecSort(8)))
                    stores[nm] = {"default": d, "entries": {str(k_): b for k_, b in ent.items() if k_ < sa.length}}
                payload = {"property": "C11", "kind": "membus", "key": f"{key}|{name}", "config": config, "op": op, "a": a_, "a2": a2_, "v": ev(V),
                           "stores": stores, "obligation": name}
                kk = lambda t: {1: "internal", 2: "external", 3: "card", 4: "rom", 5: "ram-overlay", 6: "card-void"}[ev(t)]  # noqa: E731
                def backing(x):
                    x24 = x & 0xFFFFFF
                    return any(((x24 + i) & 0xFFFFFF) < 0x100000 and ((x24 + i) & 0xFFFFF) >= 0xFFF00 for i in range(width))
                win = "win=internal-backing" if (backing(a_) or backing(a2_)) else "win=other"
                res["cex"].append({"key": f"{config}|{op}|{name.split(' (')[0]}|write {kk(k1)} read {kk(k2)}|{win}", "summary": f"{key}: a={a_:#x} a2={a2_:#x}", "payload": payload})
            else:
                res["unknown"] += 1
    return res


def main(tier):
    t0 = time.time()
    X.setup()
    rep = common.Report("C11")
    configs = CONFIGS if tier == "thorough" else ["default", "rom-full", "rom-short", "card-absent", "card-8k", "card-readonly", "ram-overlay"]
    ops = ["byte", "word", "long", "bytes3"] if tier == "thorough" else ["byte", "long"]
    cases = [(c, o) for c in configs for o in ops]
    results = common.pool_map(run_case, [(tier, c) for c in cases])
    tot = {k: 0 for k in ("paths", "obligations", "discharged", "unknown")}
    solver_time = 0.0
    samples, inconcl, cex = [], [], {}
    for r in results:
        if "fatal" in r:
            rep.harness_errors.append(f"{r['item']}: {r['fatal']}\n{r.get('tb', '')}")
            continue
        for k in tot:
            tot[k] += r[k]
        solver_time += r["solver_time"]
        if len(samples) < 8:
            samples += r["samples"]
        inconcl += r["inconclusive"]
        for c in r["cex"]:
            cex.setdefault(c["key"], c)
    for k, c in sorted(cex.items()):
        if c["payload"] is None:
            rep.harness_errors.append(f"{k}: {c['summary']}")
        else:
            rep.counterexample(k, c["payload"], c["summary"])
    if tot["obligations"] < 100:
        rep.harness_errors.append(f"vacuity guard: only {tot['obligations']} obligations")
    if tot["unknown"] or inconcl:
        rep.harness_errors.append(f"inconclusive: {tot['unknown']} {inconcl[:3]}")
    code = rep.finish()
    wall = time.time() - t0
    coverage = {
        "obligations": tot["obligations"], "discharged": tot["discharged"], "evaluations": tot["paths"], "distinct_nontrivial": len(cases),
        "rule": "one symbolic store + load per (memory configuration, access width) from an arbitrary backing store; addresses are symbolic 32-bit values",
        "samples": samples[:8], "checker_cmd": "./check C11 --tier " + tier, "trusted_base": ["z3 5.1.0", "engines/pysym", "memmap_spec in checks/membus_check.py"],
        "explanation": "Inductive step over arbitrary stores: z3 decides for all 32-bit addresses a, a2 and values that a load after a store returns the stored byte iff both addresses denote the same writable canonical cell and the previous value otherwise; internal and external cells never influence each other; read-only cells never change; multi-byte accesses are little-endian compositions.",
        "solver_time_s": round(solver_time, 2),
        "functions_encoded": ["pce500.memory.PCE500Memory.read_byte/write_byte/read_word/write_word/read_long/write_long/read_bytes/write_bytes/load_rom/add_ram/load_memory_card",
                              "pce500.memory_bus.MemoryBus.read/write/_read_from_overlay/_write_to_overlay"],
        "bounds": {"history": "1 store + 1 load from an arbitrary store (induction over access histories)", "configurations": configs,
                   "outside": LCD_KBD_NOTE + "; Rust MemoryImage is outside this check until the rsym engine carries it"},
        "known_findings_hit": {k: len(v) for k, v in rep.known_hits.items()},
    }
    assumptions = ["backing stores (external_memory, card data, ROM image, RAM overlay data) replaced by z3-array-backed byte containers of the same length",
                   "no CPU / tracer attached (cpu_pc None): the tracing side channels are disabled, their normal state"]
    common.write_evidence("C11", tier, "other", coverage, assumptions, wall, len(rep.violations))
    print(f"C11 {tier}: cases={len(cases)} paths={tot['paths']} obligations={tot['obligations']} discharged={tot['discharged']} cex={len(cex)} solver={solver_time:.1f}s wall={wall:.1f}s")
    return code
