"""Symbolic execution of one instruction encoding class through the real Emulator,
and the obligations of C03 (operands vs touched locations) and C04 (documented
result, flags and frame) against specs/isa.py.

A class = (prefix byte or None, opcode byte, total length n).  All operand
bytes, all registers, flags, TEMP registers and the whole memory are symbolic.
Structural bits of operand bytes (register selectors, mode nibbles) are
concretised by the engine itself when the decoder hashes / indexes with them,
so the structure is enumerated by the real decoder, not by this file.
"""
from __future__ import annotations

import os
import time
import traceback

import z3

from engines.pysym import core, hook
from engines.pysym.core import SymInt, explore, Stats

PC0 = 0x031234
COUNTED = {"MVL", "MVLD", "EXL", "ADCL", "SBCL", "DADL", "DSBL", "DSLL", "DSRL", "WAIT"}
PRE_BYTES = [0x21, 0x22, 0x23, 0x24, 0x25, 0x26, 0x27, 0x30, 0x31, 0x32, 0x33, 0x34, 0x35, 0x36, 0x37]

_patched = False


class _SymKeyDict(dict):
    """dict whose lookups with a symbolic key fork per member instead of hashing
    (installed over IMEMRegisters._value2member_map_ so ``IMEMRegisters(n)`` for a
    symbolic n splits into one path per named register + one "no name" path)."""

    def __getitem__(self, key):
        if type(key) is SymInt:
            for k, v in dict.items(self):
                if key == k:
                    return v
            raise KeyError(key)
        return dict.__getitem__(self, key)


def setup():
    global _patched
    hook.install()
    if _patched:
        return
    from sc62015.pysc62015.instr.opcodes import IMEMRegisters

    type.__setattr__(IMEMRegisters, "_value2member_map_", _SymKeyDict(IMEMRegisters._value2member_map_))
    _patched = True


def structure_probe():
    """Concrete probe of the real decoder: opcode -> {length: sorted second bytes}.
    Only guides the case split (which lengths to try, which second bytes give
    which length); it decides nothing."""
    from sc62015.pysc62015.instr import decode, OPCODES

    out = {}
    for op in range(256):
        by_len = {}
        for b2 in range(256):
            buf = bytes([op, b2, 0, 0, 0, 0, 0, 0, 0])
            try:
                ins = decode(buf, 0, OPCODES)
            except Exception:
                ins = None
            if ins is None:
                continue
            by_len.setdefault(ins.length(), []).append(b2)
        out[op] = by_len
    return out


_PROBE_CACHE = None


def structure_probe_cached():
    global _PROBE_CACHE
    if _PROBE_CACHE is None:
        _PROBE_CACHE = structure_probe()
    return _PROBE_CACHE


def _term(v, bits):
    return core.term_of(v, bits)


class ClassResult:
    def __init__(self, key):
        self.key = key
        self.paths = 0
        self.valid_paths = 0
        self.skipped = 0
        self.invalid = 0
        self.inconclusive = []
        self.obligations = 0
        self.discharged = 0
        self.vacuous = 0
        self.cex = []  # dicts
        self.signatures = set()
        self.solver_time = 0.0
        self.engine = None
        self.wall = 0.0
        self.samples = []
        self.errors = []


def named_values():
    from sc62015.pysc62015.instr.opcodes import IMEMRegisters

    return sorted({int(m) for m in IMEMRegisters})


def run_paths(prefix, opcode, n, b2_set=None, N=3, temps="sym", max_paths=6000, timeout_ms=20000, named_limit=None, deadline_s=None,
              sym_pc=False, want_info=False, render=True):
    """Explore one class; returns (list of per-path dicts, Stats)."""
    setup()
    from engines.pysym.machine import SymMemory, make_emulator, post_regs
    from sc62015.pysc62015.emulator import _FallbackInstruction
    from specs import operands as O

    nsym = n - 1 - (1 if prefix is not None else 0)
    if nsym < 0:
        return [], Stats()

    def fn():
        eng = core.engine()
        code = ([prefix] if prefix is not None else []) + [opcode]
        obytes = [SymInt.var(f"b{i + 1}", 8) for i in range(nsym)]
        code += obytes
        if b2_set is not None and obytes:
            eng.assume(z3.Or(*[obytes[0].t == core._bv(v) for v in b2_set]))
        if named_limit is not None and len(obytes) >= 2:
            # bound on the case split of rendered IMEM register names: at most
            # ``named_limit`` operand bytes take the value of a named register
            nv = named_values()
            isn = [z3.Or(*[b.t == core._bv(v) for v in nv]) for b in obytes]
            eng.assume(z3.AtMost(*isn, named_limit))
        code += [0] * 8  # the decoder looks ahead into the next instruction: NOPs follow
        if sym_pc:
            PC0 = SymInt.var("pc", 20)
            eng.assume((PC0 + 16 <= 0x100000).t)
        else:
            PC0 = globals()["PC0"]
        mem = SymMemory("M", PC0, code)
        emu, pre = make_emulator(mem, temps=temps)
        instr = emu.decode_instruction(PC0)
        if isinstance(instr, _FallbackInstruction):
            return {"kind": "invalid"}
        if instr.length() != n:
            return {"kind": "skip", "len": instr.length()}
        name = instr.name()
        if name in COUNTED:
            eng.assume((pre["I"] >= 1).t)
            eng.assume((pre["I"] <= N).t)
        if render:
            tokens = instr.render()
            mn, ops = O.parse_tokens(tokens, eng.handles)
            text = "".join(str(t) for t in tokens)
        else:
            mn, ops, text = name, [], name
        nlog = len(mem.log)
        out = {"kind": "exec", "mn": mn, "ops": ops, "text": text, "len": n, "pre": pre, "mem": mem, "pc": PC0, "cond": getattr(instr, "_cond", None)}
        if want_info:
            from sc62015.arch import SC62015
            from engines.pysym.containers import SymBytes

            arch = SC62015.__new__(SC62015)
            info = arch.get_instruction_info(SymBytes(code[:n]), PC0)
            out["info"] = None if info is None else (info.length, [(str(getattr(b.type, "name", b.type)), b.target) for b in info.branches])
        try:
            emu.execute_instruction(PC0)
        except core.PysymAbort:
            raise
        except Exception as e:
            out["exc"] = e
            out["tb"] = traceback.format_exc(limit=6)
        out["post"] = post_regs(emu)
        out["halted"] = emu.state.halted
        out["log"] = mem.log[nlog:]
        out["mem_final"] = mem.cur
        out["obytes"] = obytes
        return out

    return explore(fn, max_paths=max_paths, timeout_ms=timeout_ms, deadline_s=deadline_s)


def pre_state(pre, mem):
    st = {}
    for k, bits in (("BA", 16), ("I", 16), ("X", 20), ("Y", 20), ("U", 20), ("S", 20), ("PC", 20), ("F", 8)):
        st[k] = z3.simplify(_term(pre[k], bits))
    st["mem"] = mem.base
    return st


# ------------------------------------------------------------------ obligations


def _impl_post(v):
    post = v["post"]
    out = {}
    for k, bits in (("BA", 16), ("I", 16), ("X", 20), ("Y", 20), ("U", 20), ("S", 20), ("PC", 20), ("F", 8)):
        out[k] = _term(post[k], bits)
    return out


def build_specs(v, N, opcode=None):
    from specs import isa

    pre = pre_state(v["pre"], v["mem"])
    pc = z3.BitVecVal(PC0, 20)
    nv = isa.variants(v["mn"], v["ops"])
    return [isa.step(v["mn"], v["ops"], pre, pc, v["len"], N=N, variant=i, opcode=opcode, witness_mem=v.get("mem_final")) for i in range(nv)]


def c04_terms(v, specs):
    """-> (assume_any, violation) z3 terms for one path."""
    impl = _impl_post(v)
    x = z3.BitVec("x_frame", 32)
    clauses = []
    assumes = []
    for st in specs:
        A = z3.And(*st.assume) if st.assume else z3.BoolVal(True)
        m = []
        names = []
        for k in ("BA", "I", "X", "Y", "U", "S", "PC"):
            m.append(impl[k] == st.r[k])
            names.append(k)
        if "C" not in st.undefined:
            m.append(z3.Extract(0, 0, impl["F"]) == st.C())
            names.append("C")
        if "Z" not in st.undefined:
            m.append(z3.Extract(1, 1, impl["F"]) == st.Z())
            names.append("Z")
        want_halt = st.halted if st.halted is not None else z3.BoolVal(False)
        m.append(z3.BoolVal(bool(v["halted"])) == want_halt)
        names.append("halted")
        names.append("mem")
        hm = z3.BitVecVal(0, 8)
        for (a, mask) in st.havoc:
            hm = z3.If(x == a, z3.BitVecVal(mask, 8), hm)
        m.append((z3.Select(v["mem_final"], x) & ~hm) == (z3.Select(st.mem, x) & ~hm))
        assumes.append(A)
        clauses.append(z3.Or(z3.Not(A), z3.Not(z3.And(*m))))
        single = [z3.Not(t) for t in m]
        v.setdefault("mismatch_terms", []).append(list(zip(names, single)))
    if len(specs) == 1:
        return assumes[0], single
    return z3.Or(*assumes), z3.And(*clauses)


def mismatch_kinds(v, model):
    """Which components differ in the model (for the counterexample key)."""
    kinds = None
    for lst in v.get("mismatch_terms", []):
        ks = {n for (n, t) in lst if z3.is_true(model.eval(t, model_completion=True))}
        kinds = ks if kinds is None else (kinds & ks if (kinds & ks) else kinds | ks)
    return "+".join(sorted(kinds)) if kinds else "?"


def c03_terms(v, specs):
    """Read/write-set obligations: -> (assume_any, violation)."""
    from engines.pysym.machine import addr_term

    clauses = []
    assumes = []
    lo, hi = PC0, PC0 + 16
    wlog = [addr_term(a) for (k, a, _val) in v["log"] if k == "w"]
    rlog = [addr_term(a) for (k, a, _val) in v["log"] if k == "r" and not (isinstance(a, int) and lo <= a < hi)]
    for st in specs:
        A = z3.And(*st.assume) if st.assume else z3.BoolVal(True)
        bad = []
        # every actual write is a predicted write; every predicted write happens
        for w in wlog:
            bad.append(z3.Not(z3.Or(*[z3.And(c if c is not True else z3.BoolVal(True), w == a) for (a, c) in st.writes])) if st.writes else z3.BoolVal(True))
        for (a, c) in st.writes:
            cc = c if c is not True else z3.BoolVal(True)
            bad.append(z3.And(cc, z3.Not(z3.Or(*[w == a for w in wlog])) if wlog else z3.BoolVal(True)))
        # every actual non-fetch read is a predicted data or address-formation read
        allowed = st.reads + st.areads
        for r in rlog:
            bad.append(z3.Not(z3.Or(*[z3.And(c if c is not True else z3.BoolVal(True), r == a) for (a, c) in allowed])) if allowed else z3.BoolVal(True))
        # every predicted data read happens
        for (a, c) in st.reads:
            cc = c if c is not True else z3.BoolVal(True)
            bad.append(z3.And(cc, z3.Not(z3.Or(*[r == a for r in rlog])) if rlog else z3.BoolVal(True)))
        # pointer / counter register deltas are those of the rendered operands
        impl = _impl_post(v)
        for k in ("X", "Y", "U", "S", "I"):
            bad.append(impl[k] != st.r[k])
        assumes.append(A)
        clauses.append(z3.Or(z3.Not(A), z3.Or(*bad) if bad else z3.BoolVal(False)))
        single = bad
    if len(specs) == 1:
        return assumes[0], single
    return z3.Or(*assumes), z3.And(*clauses)


_SIMP_VARIANTS = (
    dict(expand_select_store=True, bv_extract_prop=True),
    dict(expand_select_store=True),
    dict(expand_select_store=True, hoist_ite=True, pull_cheap_ite=True),
    None,
)


def solve(constraints, extra, timeout_ms=30000, fast=False):
    """Decide constraints ∧ extra with a small portfolio of z3 pre-simplifications
    (select-over-store expanded into read-over-write ITE chains; extract
    propagation).  Each variant is an equivalent formula; the first definite
    answer wins; all-unknown is reported as unknown (inconclusive)."""
    t0 = time.time()
    g = z3.And(*constraints, *extra)
    if fast:
        # array-free arithmetic obligations: the plain solver usually answers in milliseconds
        s = z3.Solver()
        s.set("timeout", min(1500, timeout_ms))
        s.add(g)
        r = s.check()
        if r != z3.unknown:
            return str(r), (s.model() if r == z3.sat else None), time.time() - t0
    goals = []
    for kw in _SIMP_VARIANTS:
        try:
            goals.append(z3.simplify(g, **kw) if kw else g)
        except z3.Z3Exception:
            pass
    for budget in (min(2000, timeout_ms), min(timeout_ms, int(os.environ.get('VERIF_SOLVER_MS', '15000')))):
        for goal in goals:
            s = z3.Solver()
            s.set("timeout", budget)
            s.add(goal)
            r = s.check()
            if r != z3.unknown:
                return str(r), (s.model() if r == z3.sat else None), time.time() - t0
    return "unknown", None, time.time() - t0


class PathSolver:
    """One incremental solver per path: the path condition is asserted once, each obligation is a
    push/check/pop (process and assertion start-up dominate thousands of small queries otherwise)."""

    def __init__(self, constraints, timeout_ms=15000):
        self.constraints = list(constraints)
        self.s = z3.Solver()
        self.s.set("timeout", timeout_ms)
        self.s.add(*self.constraints)

    def check(self, neg):
        t0 = time.time()
        self.s.push()
        self.s.add(neg)
        r = self.s.check()
        m = self.s.model() if r == z3.sat else None
        self.s.pop()
        if r == z3.unknown:
            return solve(self.constraints, [neg])
        return str(r), m, time.time() - t0


def solve_any(constraints, A, viol, timeout_ms=30000):
    """viol may be a list of alternative violation terms (checked one by one: smaller queries)."""
    if not isinstance(viol, list):
        return solve(constraints, [A, viol], timeout_ms)
    total = 0.0
    unknown = False
    for t in viol:
        r, m, dt = solve(constraints, [A, t], timeout_ms)
        total += dt
        if r == "sat":
            return r, m, total
        if r != "unsat":
            unknown = True
    return ("unknown" if unknown else "unsat"), None, total


def array_image(model, arr):
    """Concrete image of a z3 array in a model -> (default, {addr: val})."""
    interp = model.eval(arr, model_completion=True)
    entries = {}
    default = 0
    # unwind Store(...) / K(...) / as-array
    t = interp
    while True:
        if z3.is_store(t):
            a = t.arg(1).as_long()
            if a not in entries:
                entries[a] = t.arg(2).as_long()
            t = t.arg(0)
            continue
        if z3.is_const_array(t):
            default = t.arg(0).as_long()
            break
        if z3.is_as_array(t):
            f = model[z3.get_as_array_func(t)]
            default = f.else_value().as_long()
            for i in range(f.num_entries()):
                e = f.entry(i)
                a = e.arg_value(0).as_long()
                if a not in entries:
                    entries[a] = e.value().as_long()
            break
        raise RuntimeError(f"unexpected array model: {t}")
    return default, entries


def cex_payload(prop, key, v, specs, model, prefix, opcode):
    """Concrete replay record for one counterexample."""
    ev = lambda t: model.eval(t, model_completion=True)  # noqa: E731
    code = ([prefix] if prefix is not None else []) + [opcode] + [ev(core.term_of(b, 8)).as_long() for b in v["obytes"]]
    pre = {k: ev(core.term_of(val, 24)).as_long() for k, val in v["pre"].items()}
    default, entries = array_image(model, v["mem"].base)
    expect = []
    for st in specs:
        A = z3.And(*st.assume) if st.assume else z3.BoolVal(True)
        if not z3.is_true(ev(A)):
            expect.append(None)
            continue
        e = {"regs": {k: ev(st.r[k]).as_long() for k in ("BA", "I", "X", "Y", "U", "S", "PC")}}
        e["C"] = None if "C" in st.undefined else ev(st.C()).as_long()
        e["Z"] = None if "Z" in st.undefined else ev(st.Z()).as_long()
        e["halted"] = bool(z3.is_true(ev(st.halted))) if st.halted is not None else False
        sd, se = array_image(model, st.mem)
        e["mem_default"] = sd
        e["mem"] = {str(a): b for a, b in se.items()}
        e["havoc"] = [[ev(a).as_long(), m] for (a, m) in st.havoc]
        e["writes"] = sorted({ev(a).as_long() for (a, c) in st.writes if c is True or z3.is_true(ev(c))})
        e["reads"] = sorted({ev(a).as_long() for (a, c) in st.reads if c is True or z3.is_true(ev(c))})
        e["areads"] = sorted({ev(a).as_long() for (a, c) in st.areads if c is True or z3.is_true(ev(c))})
        expect.append(e)
    return {
        "property": prop,
        "kind": "isa_exec",
        "key": key,
        "text": v["text"],
        "pc": PC0,
        "code": code + [0] * 8,
        "len": v["len"],
        "regs": pre,
        "mem_default": default,
        "mem": {str(a): b for a, b in entries.items()},
        "expect": expect,
        "x_frame": ev(z3.BitVec("x_frame", 32)).as_long(),
    }
