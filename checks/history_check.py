"""C07 (Python core): an instruction's architectural effect does not depend on hidden state.

(a) scratch state: every (prefix, opcode, length) class is executed with TEMP0..13,
    call_sub_level, _last_pc and _current_pc as *fresh symbolic variables* next to the
    symbolic architectural state; z3 decides the 2-run non-interference query
    "exists hidden1, hidden2 with different architectural post-state" (self-composition by
    substitution of the hidden variables).
(b) process state: for a set of instruction classes Y the post-state terms obtained on a fresh
    emulator are compared with those obtained on another fresh emulator after an unrelated
    instruction X was decoded, lifted and executed in the same process (shared operand
    templates, intrinsic registry, decoder caches).
(c) split execution: CPUStepper.step (snapshot -> fresh CPU -> execute -> snapshot) against
    executing in place, for classes whose operands are registers/immediates.
"""
from __future__ import annotations

import sys
import time

import z3

from . import common
from . import isa_exec as X
from engines.pysym import core
from engines.pysym.core import SymInt, explore

HIDDEN_PREFIXES = ("r_TEMP", "h_")


def _vars(t, acc, seen):
    if t.get_id() in seen:
        return
    seen.add(t.get_id())
    if z3.is_const(t) and t.decl().kind() == z3.Z3_OP_UNINTERPRETED:
        acc.add(t)
        return
    for c in t.children():
        _vars(c, acc, seen)


def hidden_vars(terms):
    acc, seen = set(), set()
    for t in terms:
        if z3.is_expr(t):
            _vars(t, acc, seen)
    return [v for v in acc if str(v).startswith(HIDDEN_PREFIXES)]


def classes(tier):
    from .isa_check import probe, imem_opcodes

    pr = probe()
    prefixes = [None] if tier == "quick" else [None, 0x32, 0x25]
    out = []
    for p in prefixes:
        for op in range(256):
            if op in X.PRE_BYTES:
                continue
            by_len = pr.get(op, {})
            for ln, b2s in sorted(by_len.items()):
                n = ln + (1 if p is not None else 0)
                b2 = None if len(by_len) == 1 and len(b2s) == 256 else tuple(b2s)
                out.append(("hidden", p, op, n, b2))
    from .isa_check import HEAVY

    for p in ([None] if tier == "quick" else [None, 0x32]):
        for op in range(256):
            heavy = 0x80 <= op <= 0xBF or 0xE0 <= op <= 0xEF
            if op not in X.PRE_BYTES and (tier != "quick" or not heavy or op % 8 == 0):
                out.append(("rust-hidden", p, op, None, None))
    out.sort(key=lambda c: (0 if c[0] == "rust-hidden" and (0x80 <= c[2] <= 0xBF or 0xE0 <= c[2] <= 0xEF) else 1, 0 if c[2] in HEAVY else 1))
    ys = [0x40, 0x90, 0xC8, 0xE0, 0xF0, 0x45, 0x6C, 0x04, 0xCB, 0xC4, 0x2C, 0xFD] if tier == "quick" else \
        [0x40, 0x53, 0x90, 0x98, 0xB0, 0xC8, 0xCA, 0xE0, 0xE8, 0xF0, 0xF8, 0x45, 0x4D, 0x6C, 0x04, 0x05, 0x06, 0xCB, 0xCF, 0xC4, 0xD4, 0x2C, 0x3D, 0xFD, 0xED, 0xFE, 0x01, 0xDE]
    for y in ys:
        out.append(("process", None, y, None, None))
    for y in ([0x08, 0x40, 0x0C, 0x80, 0xCC, 0x12, 0x02] if tier == "quick" else [0x08, 0x0A, 0x0C, 0x40, 0x48, 0x50, 0x70, 0x80, 0x88, 0xA0, 0xCC, 0xCD, 0x12, 0x13, 0x02, 0x03, 0x04, 0x64]):
        out.append(("reexec", None, y, None, None))
    for y in ([0x40, 0x08, 0x0C, 0x6C, 0xFD, 0xEE, 0x97, 0x00] if tier == "quick" else [0x40, 0x48, 0x50, 0x08, 0x0A, 0x0C, 0x6C, 0x7C, 0xFD, 0xED, 0xDD, 0xEE, 0x97, 0x9F, 0x00, 0x12, 0x02, 0x44, 0x45, 0x46, 0xE4, 0xF6, 0xEF]):
        out.append(("split", None, y, None, None))
    return out


def _post_terms(v):
    terms = {}
    for k, bits in (("BA", 16), ("I", 16), ("X", 20), ("Y", 20), ("U", 20), ("S", 20), ("PC", 20)):
        terms[k] = core.term_of(v["post"][k], bits)
    f = core.term_of(v["post"]["F"], 8)
    terms["C"] = z3.Extract(0, 0, f)
    terms["Z"] = z3.Extract(1, 1, f)
    x = z3.BitVec("x_frame", 32)
    terms["mem"] = z3.Select(v["mem_final"], x)
    terms["halted"] = z3.BoolVal(bool(v["halted"]))
    return terms


def run_hidden(tier, prefix, opcode, n, b2):
    from engines.pysym.machine import SymMemory, make_emulator, post_regs
    from sc62015.pysc62015.emulator import _FallbackInstruction

    key = f"{'--' if prefix is None else '%02X' % prefix}:{opcode:02X}:n{n}"
    res = {"key": key, "paths": 0, "exec": 0, "obligations": 0, "discharged": 0, "unknown": 0, "cex": [], "solver_time": 0.0,
           "samples": [], "inconclusive": [], "mnemonics": {}, "syntactic": 0}
    nsym = n - 1 - (1 if prefix is not None else 0)
    N = 2

    def fn():
        eng = core.engine()
        code = ([prefix] if prefix is not None else []) + [opcode]
        obytes = [SymInt.var(f"b{i + 1}", 8) for i in range(nsym)]
        code += obytes
        if b2 is not None and obytes:
            eng.assume(z3.Or(*[obytes[0].t == core._bv(v) for v in b2]))
        if len(obytes) >= 2:
            nv = X.named_values()
            eng.assume(z3.AtMost(*[z3.Or(*[b.t == core._bv(v) for v in nv]) for b in obytes], 0))
        code += [0] * 8
        mem = SymMemory("M", X.PC0, code)
        emu, pre = make_emulator(mem, temps="sym")
        emu.regs.call_sub_level = SymInt.var("h_call_sub_level", 8)
        emu._last_pc = SymInt.var("h_last_pc", 20)
        emu._current_pc = SymInt.var("h_current_pc", 20)
        instr = emu.decode_instruction(X.PC0)
        if isinstance(instr, _FallbackInstruction) or instr.length() != n:
            return {"kind": "skip"}
        if instr.name() in X.COUNTED:
            eng.assume((pre["I"] >= 1).t)
            eng.assume((pre["I"] <= N).t)
        out = {"kind": "exec", "mn": instr.name(), "pre": pre, "mem": mem, "obytes": obytes}
        try:
            emu.execute_instruction(X.PC0)
        except core.PysymAbort:
            raise
        except Exception as e:  # noqa: BLE001
            out["exc"] = type(e).__name__
        out["post"] = post_regs(emu)
        out["halted"] = emu.state.halted
        out["mem_final"] = mem.cur
        return out

    try:
        paths, stats = explore(fn, max_paths=6000, deadline_s=120 if tier == "quick" else 600)
    except core.PathLimit as e:
        res["inconclusive"].append(str(e))
        return res
    res["paths"] = len(paths)
    res["solver_time"] += stats.solver_time
    ex = []
    for p in paths:
        if p.status == "inconclusive":
            res["inconclusive"].append(p.detail[:100])
        elif p.status == "exception":
            res["cex"].append({"key": f"{key}|harness-exception", "summary": repr(p.exc)[:160], "payload": None})
        elif p.value["kind"] == "exec":
            ex.append(p)
    res["exec"] = len(ex)
    if not ex:
        return res
    mn = ex[0].value["mn"]
    res["mnemonics"][mn] = len(ex)
    # non-interference: for every pair of paths (p, q): C_p(h) and C_q(h') and post_p(h) != post_q(h') is unsat
    all_terms = []
    per = []
    for p in ex:
        terms = _post_terms(p.value)
        terms["raises"] = z3.BoolVal("exc" in p.value)
        per.append((p, terms))
        all_terms += list(p.constraints) + [t for t in terms.values()]
    hv = hidden_vars(all_terms)
    res["obligations"] += 1
    if not hv:
        # the hidden variables occur neither in a path condition nor in a post-state term: trivially independent
        res["discharged"] += 1
        res["syntactic"] += 1
        if not res["samples"]:
            res["samples"].append({"class": key, "mnemonic": mn, "obligation": "no hidden variable occurs in any path condition or post-state term", "paths": len(ex)})
        return res
    sub = [(h, z3.Const(str(h) + "'", h.sort())) for h in hv]
    bad = False
    unknown = False
    for (p, tp) in per:
        cp = z3.And(*p.constraints) if p.constraints else z3.BoolVal(True)
        for (q, tq) in per:
            cq = z3.substitute(z3.And(*q.constraints) if q.constraints else z3.BoolVal(True), *sub)
            diffs = []
            for k in tp:
                a, b = tp[k], z3.substitute(tq[k], *sub)
                diffs.append(a != b)
            r, m, dt = X.solve([cp, cq], [z3.Or(*diffs)])
            res["solver_time"] += dt
            if r == "sat":
                bad = True
                ev = lambda t: m.eval(t, model_completion=True)  # noqa: E731
                v = p.value
                default, entries = X.array_image(m, v["mem"].base)
                code = ([prefix] if prefix is not None else []) + [opcode] + [ev(core.term_of(b, 8)).as_long() for b in v["obytes"]]
                hid = {str(h): (ev(h).as_long(), ev(h2).as_long()) for h, h2 in sub}
                payload = {"property": "C07", "kind": "history", "sub": "hidden", "key": f"{mn}|hidden-state", "pc": X.PC0, "code": code + [0] * 8, "len": n,
                           "regs": {k: ev(core.term_of(val, 24)).as_long() for k, val in v["pre"].items() if not k.startswith("TEMP")},
                           "hidden": hid, "mem_default": default, "mem": {str(a): b for a, b in entries.items()}}
                res["cex"].append({"key": f"{mn} {opcode:02X}|depends-on-hidden-state", "summary": f"{key} {mn} hidden={list(hid)[:4]}", "payload": payload})
                break
            if r != "unsat":
                unknown = True
        if bad:
            break
    if unknown and not bad:
        res["unknown"] += 1
    elif not bad:
        res["discharged"] += 1
        if not res["samples"]:
            res["samples"].append({"class": key, "mnemonic": mn, "obligation": "2-run non-interference over " + ",".join(str(h) for h in hv[:4]), "paths": len(ex)})
    return res


def _exec_fresh(opcode, tag):
    """Execute opcode (operands symbolic, names tagged) on a fresh emulator; -> post-state terms."""
    from engines.pysym.machine import SymMemory, make_emulator, post_regs

    lens = X.structure_probe_cached().get(opcode, {1: [0]})
    n = min(lens)
    b2s = lens[n]
    obytes = [SymInt.var(f"{tag}b{i + 1}", 8) for i in range(n - 1)]
    eng = core.engine()
    if obytes and len(b2s) != 256:
        eng.assume(obytes[0].t == core._bv(b2s[len(b2s) // 2]))
    if len(obytes) >= 2:
        nv = X.named_values()
        eng.assume(z3.AtMost(*[z3.Or(*[b.t == core._bv(v) for v in nv]) for b in obytes], 0))
    mem = SymMemory(f"M{tag}", X.PC0, [opcode] + obytes + [0] * 8)
    emu, pre = make_emulator(mem, prefix=f"r{tag}", temps="zero")
    eng.assume((pre["I"] >= 1).t)
    eng.assume((pre["I"] <= 2).t)
    eng.assume((pre["S"] >= 8).t)
    exc = None
    try:
        emu.execute_instruction(X.PC0)
    except core.PysymAbort:
        raise
    except Exception as e:  # noqa: BLE001
        exc = type(e).__name__
    v = {"post": post_regs(emu), "mem_final": mem.cur, "halted": emu.state.halted}
    t = _post_terms(v)
    t["raises"] = z3.BoolVal(exc is not None)
    return t


def run_process(tier, y):
    key = f"process:{y:02X}"
    res = {"key": key, "paths": 0, "exec": 0, "obligations": 0, "discharged": 0, "unknown": 0, "cex": [], "solver_time": 0.0,
           "samples": [], "inconclusive": [], "mnemonics": {f"Y={y:02X}": 1}, "syntactic": 0}
    xs = [y, 0x90, 0xC8, 0xF0, 0xE3, 0x45, 0xFE, 0xDE][: (4 if tier == "quick" else 8)]
    for xop in xs:
        def fn():
            first = _exec_fresh(y, "y")
            _exec_fresh(xop, "x")  # unrelated history in the same process
            second = _exec_fresh(y, "y")  # identical inputs (same variable names) on another fresh emulator
            return first, second

        try:
            paths, stats = explore(fn, max_paths=3000, deadline_s=120)
        except core.PathLimit as e:
            res["inconclusive"].append(str(e))
            continue
        res["paths"] += len(paths)
        res["solver_time"] += stats.solver_time
        for p in paths:
            if p.status != "ok":
                if p.status == "inconclusive":
                    res["inconclusive"].append(p.detail[:100])
                else:
                    res["cex"].append({"key": f"{key}|harness-exception", "summary": repr(p.exc)[:160], "payload": None})
                continue
            res["exec"] += 1
            a, b = p.value
            diffs = [a[k] != b[k] for k in a]
            res["obligations"] += 1
            r, m, dt = X.solve(p.constraints, [z3.Or(*diffs)])
            res["solver_time"] += dt
            if r == "unsat":
                res["discharged"] += 1
                if not res["samples"]:
                    res["samples"].append({"class": key, "history": f"{xop:02X}", "obligation": "same instruction, same inputs, fresh emulator after an unrelated instruction"})
            elif r == "sat":
                payload = {"property": "C07", "kind": "history", "sub": "process", "key": f"process|{y:02X} after {xop:02X}", "y": y, "x": xop}
                res["cex"].append({"key": f"process|{y:02X} after {xop:02X}", "summary": "result differs after an unrelated instruction in the same process", "payload": payload})
            else:
                res["unknown"] += 1
    return res


def run_reexec(tier, y):
    """Same emulator, same address, operand bytes changed in between (decoder caches keyed by
    address must not survive a change of the bytes): second execution == fresh emulator."""
    from engines.pysym.machine import SymMemory, make_emulator, post_regs
    from sc62015.pysc62015.emulator import RegisterName

    key = f"reexec:{y:02X}"
    res = {"key": key, "paths": 0, "exec": 0, "obligations": 0, "discharged": 0, "unknown": 0, "cex": [], "solver_time": 0.0,
           "samples": [], "inconclusive": [], "mnemonics": {f"reexec={y:02X}": 1}, "syntactic": 0}
    lens = X.structure_probe_cached().get(y, {1: [0]})
    n = min(lens)
    b2s = lens[n]

    def fn():
        eng = core.engine()

        def operands(tag):
            ob = [SymInt.var(f"{tag}{i + 1}", 8) for i in range(n - 1)]
            if ob and len(b2s) != 256:
                eng.assume(ob[0].t == core._bv(b2s[len(b2s) // 2]))
            if len(ob) >= 2:
                nv = X.named_values()
                eng.assume(z3.AtMost(*[z3.Or(*[b.t == core._bv(v) for v in nv]) for b in ob], 0))
            return ob

        first, second = operands("b"), operands("c")
        mem = SymMemory("M", X.PC0, [y] + first + [0] * 8)
        emu, pre = make_emulator(mem, temps="zero")
        eng.assume(pre["I"] == 1)
        eng.assume(pre["S"] >= 8)
        try:
            emu.execute_instruction(X.PC0)
        except core.PysymAbort:
            raise
        except Exception:  # noqa: BLE001
            pass
        mid = mem.cur
        # the program rewrites its own operand bytes (and we put the NOP padding back)
        code2 = [y] + second + [0] * 8
        for i, b in enumerate(code2):
            mem.write(X.PC0 + i, b)
        state2 = {k: SymInt.var(f"s2_{k}", bits) for k, bits in (("BA", 16), ("I", 16), ("X", 20), ("Y", 20), ("U", 20), ("S", 20), ("F", 8))}
        eng.assume(state2["I"] == 1)
        eng.assume(state2["S"] >= 8)
        for k, v in state2.items():
            emu.regs._values[RegisterName[k]] = v
        exc1 = None
        try:
            emu.execute_instruction(X.PC0)
        except core.PysymAbort:
            raise
        except Exception as e:  # noqa: BLE001
            exc1 = type(e).__name__
        a = _post_terms({"post": post_regs(emu), "mem_final": mem.cur, "halted": emu.state.halted})
        a["raises"] = z3.BoolVal(exc1 is not None)
        # fresh emulator on the same memory image and register state
        mem2 = SymMemory("M", None, ())
        mem2.cur = mid
        mem2.written = True
        for i, b in enumerate(code2):
            mem2.write(X.PC0 + i, b)
        emu2, _ = make_emulator(mem2, temps="zero", regs=dict(state2, PC=pre["PC"]))
        emu2.state.halted = False
        exc2 = None
        try:
            emu2.execute_instruction(X.PC0)
        except core.PysymAbort:
            raise
        except Exception as e:  # noqa: BLE001
            exc2 = type(e).__name__
        b = _post_terms({"post": post_regs(emu2), "mem_final": mem2.cur, "halted": emu2.state.halted})
        b["raises"] = z3.BoolVal(exc2 is not None)
        a.pop("halted")
        b.pop("halted")  # the first execution may already have halted the first emulator (HALT/OFF)
        return a, b

    try:
        paths, stats = explore(fn, max_paths=3000, deadline_s=120)
    except core.PathLimit as e:
        res["inconclusive"].append(str(e))
        return res
    res["paths"] = len(paths)
    res["solver_time"] += stats.solver_time
    for p in paths:
        if p.status != "ok":
            if p.status == "inconclusive":
                res["inconclusive"].append(p.detail[:100])
            else:
                res["cex"].append({"key": f"{key}|harness-exception", "summary": repr(p.exc)[:160], "payload": None})
            continue
        res["exec"] += 1
        a, b = p.value
        res["obligations"] += 1
        r, m, dt = X.solve(p.constraints, [z3.Or(*[a[k] != b[k] for k in a])])
        res["solver_time"] += dt
        if r == "unsat":
            res["discharged"] += 1
            if not res["samples"]:
                res["samples"].append({"class": key, "obligation": "re-execution at the same address after the operand bytes changed == fresh emulator"})
        elif r == "sat":
            payload = {"property": "C07", "kind": "history", "sub": "reexec", "key": key, "y": y}
            res["cex"].append({"key": f"reexec|{y:02X}", "summary": "second execution at the same address differs from a fresh emulator", "payload": payload})
        else:
            res["unknown"] += 1
    return res


def run_split(tier, y):
    """CPUStepper.step vs executing in place (register/immediate operand classes)."""
    from sc62015.pysc62015.stepper import CPUStepper, CPURegistersSnapshot
    from sc62015.pysc62015.emulator import Emulator, RegisterName
    from binja_test_mocks.eval_llil import Memory

    key = f"split:{y:02X}"
    res = {"key": key, "paths": 0, "exec": 0, "obligations": 0, "discharged": 0, "unknown": 0, "cex": [], "solver_time": 0.0,
           "samples": [], "inconclusive": [], "mnemonics": {f"split={y:02X}": 1}, "syntactic": 0}
    lens = X.structure_probe_cached().get(y, {1: [0]})
    n = min(lens)
    b2s = lens[n]

    def fn():
        eng = core.engine()
        obytes = [SymInt.var(f"b{i + 1}", 8) for i in range(n - 1)]
        if obytes and len(b2s) != 256:
            eng.assume(obytes[0].t == core._bv(b2s[len(b2s) // 2]))
        code = [y] + obytes + [0] * 8
        pc = 0x1000
        image = {pc + i: b for i, b in enumerate(code)}
        regs = {k: SymInt.var(f"r_{k}", bits) for k, bits in (("BA", 16), ("I", 16), ("X", 20), ("Y", 20), ("U", 20), ("S", 20), ("F", 8))}
        eng.assume((regs["I"] >= 1).t)
        eng.assume((regs["I"] <= 2).t)
        snap = CPURegistersSnapshot(pc=pc, ba=regs["BA"], i=regs["I"], x=regs["X"], y=regs["Y"], u=regs["U"], s=regs["S"], f=regs["F"])
        r = CPUStepper(backend="python").step(snap, image)
        # in place
        store = dict(image)
        emu = Emulator(Memory(lambda a: store.get(a, 0), lambda a, v: store.__setitem__(a, v)), reset_on_init=False)
        for k, v in regs.items():
            emu.regs._values[RegisterName[k]] = v
        emu.regs._values[RegisterName.PC] = pc
        emu.execute_instruction(pc)
        a = {k: core.term_of(getattr(r.registers, k.lower()), 24) for k in ("BA", "I", "X", "Y", "U", "S", "F", "PC")}
        b = {k: core.term_of(emu.regs._values[RegisterName[k]], 24) for k in ("BA", "I", "X", "Y", "U", "S", "F", "PC")}
        ma = r.memory_image
        keys = sorted(set(ma) | set(store))
        return a, b, [(core.term_of(ma.get(k, 0), 8), core.term_of(store.get(k, 0), 8)) for k in keys]

    try:
        paths, stats = explore(fn, max_paths=2000, deadline_s=120)
    except core.PathLimit as e:
        res["inconclusive"].append(str(e))
        return res
    res["paths"] = len(paths)
    res["solver_time"] += stats.solver_time
    for p in paths:
        if p.status != "ok":
            if p.status == "inconclusive":
                res["inconclusive"].append(p.detail[:100])
            else:
                res["cex"].append({"key": f"{key}|raises|{type(p.exc).__name__}", "summary": repr(p.exc)[:160], "payload": None})
            continue
        res["exec"] += 1
        a, b, memp = p.value
        diffs = [a[k] != b[k] for k in a] + [x != y_ for x, y_ in memp]
        res["obligations"] += 1
        r, m, dt = X.solve(p.constraints, [z3.Or(*diffs)])
        res["solver_time"] += dt
        if r == "unsat":
            res["discharged"] += 1
            if not res["samples"]:
                res["samples"].append({"class": key, "obligation": "CPUStepper.step == execute in place"})
        elif r == "sat":
            payload = {"property": "C07", "kind": "history", "sub": "split", "key": key, "y": y}
            res["cex"].append({"key": f"split|{y:02X}", "summary": "CPUStepper.step differs from in-place execution", "payload": payload})
        else:
            res["unknown"] += 1
    return res


def run_rust_hidden(tier, prefix, opcode):
    """Rust core: LlamaExecutor::execute after an arbitrary hidden history (TEMP registers, call depth / sub level, one call
    frame, one saved call page as fresh variables h_*) next to symbolic architectural state and symbolic operand bytes;
    no hidden variable may influence the path taken or any observable (registers, flags, memory, returned length/error)."""
    from .parity_check import rust_paths
    from engines.rsym import interp

    key = f"rust-hidden:{'--' if prefix is None else '%02X' % prefix}:{opcode:02X}"
    res = {"key": key, "paths": 0, "exec": 0, "obligations": 0, "discharged": 0, "unknown": 0, "syntactic": 0, "cex": [], "solver_time": 0.0,
           "samples": [], "inconclusive": [], "mnemonics": {}}
    B = z3.BitVec
    code = ([prefix] if prefix is not None else []) + [opcode] + [B(f"b{i}", 8) for i in range(1, 6)] + [0] * 8
    extra = {20 + i: z3.ZeroExt(8, B(f"h_temp{i}", 24)) for i in range(14)}
    extra.update({34: B("h_depth", 32), 35: B("h_sub", 32), 36: z3.ZeroExt(12, B("h_frame_dest", 20)), 37: z3.ZeroExt(24, B("h_frame_bits", 8)),
                  38: z3.ZeroExt(12, B("h_page", 20)), 39: z3.ZeroExt(30, B("h_have", 2)),
                  45: z3.ZeroExt(31, B("h_stale_fc", 1)), 46: z3.ZeroExt(31, B("h_stale_fz", 1))})
    N = 2 if tier == "quick" else 3
    assumptions = [z3.ULE(B("r_I", 16), N)]
    runs = {}
    for have in (0, 3):
        # have = 0: fresh state (no frame, no saved page; TEMPs/depth still arbitrary); have = 3: a pending call frame and a saved page
        extra[39] = have
        try:
            paths, stats = rust_paths(code, assumptions, entry="harness_execute_hidden", extra_inputs=dict(extra), deadline_s=150 if tier == "quick" else 600)
        except core.PathLimit as e:
            res["inconclusive"].append(f"rust: {e}")
            return res
        res["solver_time"] += stats.solver_time
        res["paths"] += len(paths)
        done = []
        for q in paths:
            if q.status == "inconclusive":
                res["inconclusive"].append("rust: " + q.detail[:100])
                continue
            if q.status == "exception":
                res["cex"].append({"key": f"{key}|harness-exception", "summary": repr(q.exc)[:160], "payload": None})
                continue
            v = q.value
            res["exec"] += 1
            obs = [interp.to_term(v["ret"], 32) if v["ret"] is not None else z3.BitVecVal(0, 32), v["mem"], z3.BoolVal(v["panic"] is not None)]
            obs += [interp.to_term(v["out"][k], 32) for k in sorted(v["out"])]
            done.append((q, obs))
        runs[have] = done
    res["mnemonics"][f"{opcode:02X}"] = len(runs[0])

    def cex(q, m_, hv, what):
        model = {str(d): m_[d].as_long() for d in m_.decls() if hasattr(m_[d], "as_long")}
        codev = [c if isinstance(c, int) else m_.eval(c, model_completion=True).as_long() for c in code]
        mdef, ments = X.array_image(m_, z3.Array("M", z3.BitVecSort(32), z3.BitVecSort(8)))
        payload = {"property": "C07", "kind": "history", "rust": True, "key": key, "code": codev, "model": model, "hidden": [str(h) for h in hv], "what": what,
                   "pc": X.PC0, "mem_default": mdef, "mem": {str(a): b for a, b in ments.items()}}
        res["cex"].append({"key": f"{key}|{what}|{','.join(sorted({str(h).rstrip('0123456789') for h in hv})) or 'frame/page'}", "summary": f"{key}: {what} {sorted(str(h) for h in hv)[:4]}", "payload": payload})

    x = z3.BitVec("x_frame", 32)

    def differ(o1, o2):
        if len(o1) != len(o2):
            return z3.BoolVal(True)
        return z3.Or(*[(z3.Select(a_, x) != z3.Select(b_, x)) if z3.is_array(a_) else (a_ != b_) for a_, b_ in zip(o1, o2)])

    # (1) within each run: no hidden *value* (TEMPs, depth, sub level, frame contents, page) influences path or observables
    for have, done in runs.items():
        for q, obs in done:
            res["obligations"] += 1
            hv = hidden_vars(list(q.constraints) + obs)
            if not hv:
                res["discharged"] += 1
                res["syntactic"] += 1
                continue
            sub = [(h, z3.BitVec(str(h) + "'", h.size())) for h in hv]
            ok = True
            for q2, obs2 in done:
                r_, m_, dt = X.solve(list(q.constraints) + [z3.substitute(c, *sub) for c in q2.constraints] + assumptions, [differ(obs, [z3.substitute(o, *sub) for o in obs2])])
                res["solver_time"] += dt
                if r_ == "sat":
                    ok = False
                    cex(q, m_, hv, "hidden-values-change-the-outcome")
                    break
                if r_ != "unsat":
                    ok = False
                    res["unknown"] += 1
                    break
            if ok:
                res["discharged"] += 1
    # (2) across the runs: a pending frame / saved page does not change the outcome either
    sig = lambda q, obs: (tuple(sorted(core._canon_hash(z3.simplify(c)) or id(c) for c in q.constraints)), tuple(core._canon_hash(o) if not z3.is_array(o) else core._canon_hash(z3.Select(o, x)) for o in obs))  # noqa: E731
    index = {}
    for q, obs in runs[3]:
        index[sig(q, obs)] = True
    for q, obs in runs[0]:
        res["obligations"] += 1
        sg = sig(q, obs)
        if None not in sg[0] and None not in sg[1] and sg in index:
            res["discharged"] += 1
            res["syntactic"] += 1
            if not res["samples"]:
                res["samples"].append({"class": key, "how": "the run with a pending call frame and saved page has a path with the same condition and the same observables", "observables": len(obs)})
            continue
        ok = True
        for q2, obs2 in runs[3]:
            r_, m_, dt = X.solve(list(q.constraints) + list(q2.constraints) + assumptions, [differ(obs, obs2)])
            res["solver_time"] += dt
            if r_ == "sat":
                ok = False
                cex(q, m_, [], "pending-call-frame-or-saved-page-changes-the-outcome")
                break
            if r_ != "unsat":
                ok = False
                res["unknown"] += 1
                break
        if ok:
            res["discharged"] += 1
    return res


def run_class(item):
    tier, c = item
    X.setup()
    t0 = time.time()
    if c[0] == "rust-hidden":
        r = run_rust_hidden(tier, c[1], c[2])
    elif c[0] == "hidden":
        r = run_hidden(tier, c[1], c[2], c[3], c[4])
    elif c[0] == "process":
        r = run_process(tier, c[2])
    elif c[0] == "reexec":
        r = run_reexec(tier, c[2])
    else:
        r = run_split(tier, c[2])
    r["wall"] = time.time() - t0
    return r


def main(tier):
    t0 = time.time()
    X.setup()
    rep = common.Report("C07")
    items = [(tier, c) for c in classes(tier)]
    from engines.rsym import build

    build.ensure_built()  # build / parse once before the workers fork (a cold cache must not be filled by 16 workers at once)
    build.image()
    results = common.pool_map(run_class, items)
    tot = {k: 0 for k in ("paths", "exec", "obligations", "discharged", "unknown", "syntactic")}
    solver_time = 0.0
    samples, inconcl, mns, cex = [], [], {}, {}
    for r in results:
        if "fatal" in r:
            rep.harness_errors.append(f"{r['item']}: {r['fatal']}\n{r.get('tb', '')}")
            continue
        for k in tot:
            tot[k] += r[k]
        solver_time += r["solver_time"]
        inconcl += [f"{r['key']}: {x}" for x in r["inconclusive"]]
        for s_, c_ in r["mnemonics"].items():
            mns[s_] = mns.get(s_, 0) + c_
        if r["samples"] and (len(samples) < 6 or r["key"].startswith(("process", "split")) and len(samples) < 12):
            samples += r["samples"][:1]
        for c in r["cex"]:
            cex.setdefault(c["key"], c)
    for k, c in sorted(cex.items()):
        if c["payload"] is None:
            rep.harness_errors.append(f"{k}: {c['summary']}")
        else:
            rep.counterexample(k, c["payload"], c["summary"])
    n_incon = len(inconcl) + tot["unknown"]
    if tot["obligations"] < 200:
        rep.harness_errors.append(f"vacuity guard: only {tot['obligations']} obligations")
    if n_incon > 0.05 * max(1, tot["obligations"]):
        rep.harness_errors.append(f"too many inconclusive: {n_incon}: {inconcl[:4]}")
    code = rep.finish()
    wall = time.time() - t0
    coverage = {
        "evaluations": tot["paths"], "distinct_nontrivial": len(mns), "obligations": tot["obligations"], "discharged": tot["discharged"],
        "decided_syntactically": tot["syntactic"], "inconclusive": n_incon,
        "rule": "one class per (prefix, opcode, length) with all hidden state symbolic + process-history pairs (Y after X) + stepper/in-place pairs; distinct = distinct mnemonics / pair ids",
        "samples": samples[:12], "solver_time_s": round(solver_time, 2), "inconclusive_details": inconcl[:10],
        "functions_encoded": ["Rust (LLVM IR): LlamaExecutor::execute after LlamaState::set_reg(Temp(0..13)), set_call_depth, set_call_sub_level, push_call_frame, push_call_page and earlier individual FC/FZ writes with symbolic values (harness_execute_hidden)",
                              "Emulator.execute_instruction (TEMP0..13, call_sub_level, _last_pc, _current_pc symbolic)", "every lift in instr/instructions.py",
                              "CPUStepper.step, CPURegistersSnapshot, CPU facade (python backend)", "create_instruction/deepcopy of operand templates across emulator instances"],
        "bounds": {"history": "arbitrary hidden state before one instruction (subsumes arbitrary histories for the state they can leave behind); process history depth 1",
                   "I": "1..2", "rust_core": "outside this check until the rsym engine carries LlamaExecutor::execute"},
        "known_findings_hit": {k: len(v) for k, v in rep.known_hits.items()},
    }
    assumptions = ["hidden state = TEMP registers, call_sub_level, _last_pc/_current_pc; tracing disabled (its normal state)",
                   "N+M split of PCE500Emulator.run is outside this check (whole-machine runs)"]
    common.write_evidence("C07", tier, "exploration", coverage, assumptions, wall, len(rep.violations))
    print(f"C07 {tier}: classes={len(items)} paths={tot['paths']} exec={tot['exec']} obligations={tot['obligations']} discharged={tot['discharged']} "
          f"(syntactic {tot['syntactic']}) inconclusive={n_incon} cex={len(cex)} solver={solver_time:.1f}s wall={wall:.1f}s")
    return code
