"""Concrete replay for C15 (Python LCD model) against a plain-Python reference of the HD61202 protocol."""


def _ref_decode(addr):
    if (addr & 0xF000) not in (0x2000, 0xA000):
        return None
    lo = addr & 0xF
    return lo & 1, (lo >> 1) & 1, (lo >> 2) & 3  # rw, di, cs


def _sel(cs):
    return {0: (0, 1), 1: (1,), 2: (0,)}.get(cs, ())


def ref_write(chips, addr, val):
    d = _ref_decode(addr)
    if d is None:
        return
    rw, di, cs = d
    if rw == 1 or cs == 3:
        return
    for i in _sel(cs):
        c = chips[i]
        c["busy"] = 1
        if di == 0:
            k = val >> 6
            if k == 0:
                c["on"] = val & 1
            elif k == 3:
                c["start"] = val & 0x3F
            elif k == 2:
                c["page"] = val & 7
            else:
                c["y"] = val & 0x3F
        else:
            c["vram"][c["page"] * 64 + c["y"]] = val
            c["y"] = (c["y"] + 1) % 64


def ref_read(chips, addr):
    d = _ref_decode(addr)
    if d is None:
        return None
    rw, di, cs = d
    if rw == 0 or cs in (0, 3):
        return None
    c = chips[0 if cs == 2 else 1]
    if di == 1:
        v = c["vram"][c["page"] * 64 + (c["y"] - 1) % 64]
        c["y"] = (c["y"] + 1) % 64
        return v
    v = (0x80 if c["busy"] else 0) | (0 if c["on"] else 0x20)
    c["busy"] = 0
    return v


def replay_rust(rec):
    """Native run of the real Rust LcdController (replay binary) against the plain-Python reference."""
    from engines.rsym import build
    from checks.lcd_check import spec_pixel

    ins = {}
    ref = []
    for chip, s in enumerate(rec["chips"]):
        flat = [s["vram_default"]] * 512
        for a, b in s["vram"].items():
            flat[int(a)] = b
        base = 100 + chip * 10
        busy = rec["busy"][chip]
        ins.update({base: s["on"], base + 1: s["start"], base + 2: s["page"], base + 3: s["y"], base + 4: busy})
        for k, b in enumerate(flat):
            ins[1000 + chip * 1000 + k] = b
        ref.append({"on": s["on"], "busy": busy, "start": s["start"], "page": s["page"], "y": s["y"], "vram": list(flat)})
    o = rec["ops"]
    case = rec["case"]
    if case == "pixels":
        r = build.run_replay("harness_lcd_pixels", ins, {})
        bad = 0
        for row in range(32):
            for col in range(240):
                chip, page, c, bit = spec_pixel(row, col)
                yv = (page * 8 + bit + ref[chip]["start"]) % 64
                w = 0 if (ref[chip]["vram"][(yv // 8) * 64 + c] >> (yv % 8)) & 1 else 1
                if r["out"].get(50_000 + row * 240 + col) != w:
                    bad += 1
        print("rust pixel mismatches:", bad)
        return bad > 0
    ins.update({200: 0 if case == "write" else 1, 201: o["addr"], 202: o["val"]})
    r = build.run_replay("harness_lcd_op", ins, {})
    out = r["out"]
    mism = []
    if case == "write":
        ref_write(ref, o["addr"], o["val"])
    else:
        want = ref_read(ref, o["addr"])
        got = out.get(0)
        if got != (0x100 if want is None else want):
            mism.append(f"return {got} want {want}")
    for i, rf in enumerate(ref):
        cur = {"on": out.get(60 + 10 * i), "start": out.get(61 + 10 * i), "page": out.get(62 + 10 * i), "y": out.get(63 + 10 * i)}
        for k, v in cur.items():
            if v != rf[k]:
                mism.append(f"chip{i}.{k} {v} want {rf[k]}")
        flat = [out.get(10_000 + 512 * i + k) for k in range(512)]
        if flat != rf["vram"]:
            mism.append(f"chip{i}.vram differs")
        st = (0x80 if rf["busy"] else 0) | (0 if rf["on"] else 0x20)
        if out.get(20 + i) != st:
            mism.append(f"chip{i}.status {out.get(20 + i)} want {st}")
    print("rust ops", o, "busy", rec["busy"], "mismatches", mism)
    return bool(mism)


def replay(rec):
    if rec.get("rust"):
        return replay_rust(rec)
    from pce500.display.controller_wrapper import HD61202Controller
    from checks.lcd_check import spec_pixel

    ctl = HD61202Controller()
    ref = []
    for chip, s in zip(ctl.chips, rec["chips"]):
        flat = [s["vram_default"]] * 512
        for a, b in s["vram"].items():
            flat[int(a)] = b
        chip.vram = [flat[p * 64:(p + 1) * 64] for p in range(8)]
        chip.state.on, chip.state.busy = bool(s["on"]), bool(s["busy"])
        chip.state.start_line, chip.state.page, chip.state.y_address = s["start"], s["page"], s["y"]
        ref.append({"on": s["on"], "busy": s["busy"], "start": s["start"], "page": s["page"], "y": s["y"], "vram": list(flat)})
    o = rec["ops"]
    case = rec["case"]
    got = want = None
    if case == "pixels":
        buf = ctl.get_display_buffer()
        bad = 0
        for row in range(32):
            for col in range(240):
                chip, page, c, bit = spec_pixel(row, col)
                w = 1 if (ref[chip]["on"] and not ((ref[chip]["vram"][page * 64 + c] >> bit) & 1)) else 0
                if int(buf[row, col]) != w:
                    bad += 1
        print("pixel mismatches:", bad)
        return bad > 0
    if case == "write":
        ctl.write(o["addr"], o["val"])
        ref_write(ref, o["addr"], o["val"])
    elif case == "read":
        got = ctl.read(o["addr"])
        want = ref_read(ref, o["addr"])
    else:
        ctl.write(o["addr"], o["val"])
        ctl.write(o["addr2"], o["val2"])
        got = ctl.read(o["addr3"])
        ref_write(ref, o["addr"], o["val"])
        ref_write(ref, o["addr2"], o["val2"])
        want = ref_read(ref, o["addr3"])
    mism = []
    if got != want:
        mism.append(f"return {got} want {want}")
    for i, (chip, r) in enumerate(zip(ctl.chips, ref)):
        st = chip.state
        cur = {"on": int(bool(st.on)), "busy": int(bool(st.busy)), "start": st.start_line, "page": st.page, "y": st.y_address}
        for k, v in cur.items():
            if v != r[k]:
                mism.append(f"chip{i}.{k} {v} want {r[k]}")
        flat = [b for row in chip.vram for b in row]
        if flat != r["vram"]:
            mism.append(f"chip{i}.vram differs")
    print("ops", o, "mismatches", mism)
    return bool(mism)
