"""Concrete replay for C18: the natively compiled harness (real AsyncDriver), obligations re-evaluated on concrete values."""
import z3


def replay(rec):
    from engines.rsym import build
    from checks.sched_check import sched_obligations, BITS

    ins = {int(k): int(v) for k, v in rec["inputs"].items()}
    shape = tuple(rec["shape"])
    nba, nbb = ins[820], ins[821]
    r = build.run_replay("harness_async", ins, {})
    bv = lambda v, n: z3.BitVecVal(int(v), n)  # noqa: E731
    bud = {0: [bv(ins.get(830 + i, 0), BITS) for i in range(nba)], 1: [bv(ins.get(840 + i, 0), BITS) for i in range(nbb)]}
    due = {}
    for t, n in enumerate(shape):
        acc = 0
        for i in range(n):
            acc += ins.get(810 + 4 * t + i, 0)
            due[(t, i)] = bv(acc, 32)
    T = lambda v, n: v if z3.is_expr(v) else bv(v, n)  # noqa: E731
    notes = []
    bad = []
    for name, neg in sched_obligations(shape, nba, nbb, bud, due, dict(r["out"]), dict(r["out64"]), T, notes):
        if z3.is_true(z3.simplify(neg)):
            bad.append(name)
    print("native run:", {k: v for k, v in sorted(r["out"].items())}, {k: hex(v) for k, v in sorted(r["out64"].items())})
    print("violated obligations:", bad, notes)
    want = rec["obligation"].split(":")[-1]
    return any(b.split(":")[-1] == want for b in bad)
