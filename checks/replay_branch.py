"""Concrete replay for C05 counterexamples."""


def _machine(rec, code_at=None):
    from sc62015.pysc62015.emulator import Emulator, RegisterName
    from binja_test_mocks.eval_llil import Memory

    size = 0x1000000
    mem = bytearray([rec.get("mem_default", 0) & 0xFF]) * size
    for a, v in rec.get("mem", {}).items():
        if 0 <= int(a) < size:
            mem[int(a)] = v
    if code_at is not None:
        for i, b in enumerate(rec["code"]):
            mem[code_at + i] = b
    emu = Emulator(Memory(lambda a: mem[a], lambda a, v: mem.__setitem__(a, v)), reset_on_init=False)
    for name, val in rec["regs"].items():
        emu.regs._values[RegisterName[name]] = val
    return emu, mem


def replay(rec):
    from sc62015.arch import SC62015
    from sc62015.pysc62015.emulator import RegisterName

    ob = rec["obligation"]
    pc = rec["pc"]
    if "pair" in rec:
        emu, mem = _machine(rec)
        pre = dict(rec["regs"])
        imr0 = mem[0x1000FB]
        n1 = {"CALL;RET": 3, "CALLF;RETF": 4, "IR;RETI": 1}[rec["pair"]]
        emu.execute_instruction(pc)
        mid = emu.regs.get(RegisterName.PC)
        emu.execute_instruction(mid)
        got = {k: emu.regs._values[RegisterName[k]] for k in ("PC", "S", "F", "BA", "I", "X", "Y", "U")}
        print("after pair:", {k: hex(v) for k, v in got.items()}, "IMR", hex(mem[0x1000FB]), "was", hex(imr0), "mid", hex(mid))
        if ob == "resume-after-call":
            return got["PC"] != ((pc + n1) & 0xFFFFF)
        if ob == "stack-pointer-restored":
            return got["S"] != pre["S"]
        if ob == "flags-restored":
            return (got["F"] & 3) != (pre["F"] & 3)
        if ob == "interrupt-mask-restored":
            return mem[0x1000FB] != imr0
        if ob.endswith("-unchanged"):
            k = ob.split("-")[0]
            return got[k] != pre[k]
        if ob == "call-reaches-target":
            return True  # informational: the symbolic target model is part of the harness
        return False
    emu, mem = _machine(rec, code_at=pc)
    arch = SC62015.__new__(SC62015)
    n = rec["len"]
    info = arch.get_instruction_info(bytes(rec["code"][:n]), pc)
    f = rec["regs"]["F"]
    emu.execute_instruction(pc)
    post = emu.regs.get(RegisterName.PC)
    br = [] if info is None else [(getattr(b.type, "name", str(b.type)), b.target) for b in info.branches]
    print("branches", [(t, None if x is None else hex(x)) for t, x in br], "post PC", hex(post), "pc", hex(pc), "len", n, "F", f)
    tg = dict(br)
    nxt = (pc + n) & 0xFFFFF
    if ob == "info-rejects-valid-instruction":
        return info is None
    if ob == "info-length-differs":
        return info is not None and info.length != n
    if ob == "no-branch-reported-but-pc-differs":
        return not br and post != nxt
    if ob == "unconditional-target":
        return post != (tg["UnconditionalBranch"] & 0xFFFFF)
    cond = rec.get("cond")
    taken = True
    if cond:
        flag = (f >> 1) & 1 if "Z" in cond else f & 1
        taken = flag == (0 if "N" in cond else 1)
    if ob == "true-target":
        return taken and "TrueBranch" in tg and post != (tg["TrueBranch"] & 0xFFFFF)
    if ob == "false-target":
        return (not taken) and "FalseBranch" in tg and post != (tg["FalseBranch"] & 0xFFFFF)
    if ob == "call-target":
        return post != (tg["CallDestination"] & 0xFFFFF)
    if ob == "conditional-branch-misses-an-edge":
        return ("TrueBranch" in tg) != ("FalseBranch" in tg)
    return False
