"""Concrete replay for C13 (Python scheduler)."""


def replay(rec):
    from pce500.scheduler import TimerScheduler, TimerSource

    s = rec["state"]
    case, ob = rec["case"], rec["obligation"]
    sch = TimerScheduler(s["mti_period"], s["sti_period"])
    sch.enabled = case != "disabled"
    if case == "reset":
        sch.reset(cycle_base=s["cycle_base"])
        print("reset ->", sch.next_mti, sch.next_sti)
        return (sch.next_mti != s["cycle_base"] + s["mti_period"]) if ob == "reset-mti" else (sch.next_sti != s["cycle_base"] + s["sti_period"])
    sch._next_mti, sch._next_sti = s["next_mti"], s["next_sti"]
    cyc = s["cycle"]
    fired = list(sch.advance(cyc))
    print("state", s, "fired", fired, "next", sch._next_mti, sch._next_sti)
    tag, _, what = ob.partition(":")
    per = s[tag + "_period"]
    nxt = s["next_" + tag]
    nxt2 = sch._next_mti if tag == "mti" else sch._next_sti
    did = (TimerSource.MTI if tag == "mti" else TimerSource.STI) in fired
    should = sch.enabled and per > 0 and cyc >= nxt
    if what == "fires-iff-due":
        return did != should
    if what == "next-strictly-in-future":
        return did and not (nxt2 > cyc)
    if what == "next-not-more-than-one-period-ahead":
        return did and not (nxt2 - per <= cyc)
    if what == "phase-preserved":
        return did and (per <= 0 or (nxt2 - nxt) % per != 0 or nxt2 <= nxt)
    if what == "target-unchanged-when-not-fired":
        return (not did) and nxt2 != nxt
    return False
