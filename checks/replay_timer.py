"""Concrete replay for C13 (Python scheduler)."""


def replay_rust(rec):
    from engines.rsym import build

    s = rec["state"]
    ins = {50: rec["enabled"], 51: 1 if rec["preserve"] else 0, 62: rec["isr"]}
    ins64 = {i: s[n] for n, i in {"mti_period": 52, "sti_period": 54, "next_mti": 56, "next_sti": 58, "cycle": 60}.items()}
    case = rec["case"]
    r = build.run_replay("harness_timer_reset" if case == "reset" else "harness_timer", ins, {}, inputs64=ins64)
    o = r["out"]
    j = lambda i: r["out64"][i]  # noqa: E731
    bad = []
    if case == "reset":
        if (s["mti_period"] > 0 and j(2) != s["cycle"] + s["mti_period"]) or (s["sti_period"] > 0 and j(4) != s["cycle"] + s["sti_period"]):
            bad.append("reset targets")
    else:
        isr = rec["isr"]
        for tag, fi, ni, bit in (("mti", 0, 2, 1), ("sti", 1, 4, 2)):
            per, nxt, cyc = s[tag + "_period"], s["next_" + tag], s["cycle"]
            should = bool(rec["enabled"]) and per > 0 and cyc >= nxt
            fired = bool(o[fi])
            n2 = j(ni)
            if fired != should:
                bad.append(f"{tag} fired={fired} should={should}")
            if fired and not n2 > cyc:
                bad.append(f"{tag} next {n2} not in the future of {cyc}")
            if fired and rec["preserve"] and (n2 - per > cyc or (n2 - nxt) % per != 0):
                bad.append(f"{tag} phase/period next={n2}")
            if fired and not rec["preserve"] and n2 != cyc + per:
                bad.append(f"{tag} rearm {n2}")
            if not fired and n2 != nxt:
                bad.append(f"{tag} target moved without firing")
            if should:
                isr |= bit
        if o[6] != isr:
            bad.append(f"ISR {o[6]:#x} want {isr:#x}")
    print("native rust timer:", rec["state"], "->", o, bad)
    return bool(bad)


def replay(rec):
    if rec.get("rust"):
        return replay_rust(rec)
    from pce500.scheduler import TimerScheduler, TimerSource

    s = rec["state"]
    case, ob = rec["case"], rec["obligation"]
    sch = TimerScheduler(s["mti_period"], s["sti_period"])
    sch.enabled = case != "disabled"
    if case == "reset":
        sch.reset(cycle_base=s["cycle_base"])
        print("reset ->", sch.next_mti, sch.next_sti)
        return (sch.next_mti != s["cycle_base"] + s["mti_period"]) if ob == "reset-mti" else (sch.next_sti != s["cycle_base"] + s["sti_period"])
    sch._next_mti, sch._next_sti = s["next_mti"], s["next_sti"]
    cyc = s["cycle"]
    fired = list(sch.advance(cyc))
    print("state", s, "fired", fired, "next", sch._next_mti, sch._next_sti)
    tag, _, what = ob.partition(":")
    per = s[tag + "_period"]
    nxt = s["next_" + tag]
    nxt2 = sch._next_mti if tag == "mti" else sch._next_sti
    did = (TimerSource.MTI if tag == "mti" else TimerSource.STI) in fired
    should = sch.enabled and per > 0 and cyc >= nxt
    if what == "fires-iff-due":
        return did != should
    if what == "next-strictly-in-future":
        return did and not (nxt2 > cyc)
    if what == "next-not-more-than-one-period-ahead":
        return did and not (nxt2 - per <= cyc)
    if what == "phase-preserved":
        return did and (per <= 0 or (nxt2 - nxt) % per != 0 or nxt2 <= nxt)
    if what == "target-unchanged-when-not-fired":
        return (not did) and nxt2 != nxt
    return False
