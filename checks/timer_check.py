"""C13 (Python scheduler): timers fire exactly on period boundaries however time advances.

One call of the real ``TimerScheduler.advance`` from an arbitrary scheduler state
(periods, next targets, enabled flag, cycle counter all symbolic); z3 decides the
timer_spec obligations.  The catch-up loop is unwound up to K periods (unwinding
assumption: the gap is below K periods); inductive over call sequences because the
post-state is again an arbitrary scheduler state.
"""
from __future__ import annotations

import sys
import time

import z3

from . import common
from . import isa_exec as X
from engines.pysym import core
from engines.pysym.core import SymInt, explore

BITS = 40  # cycle counter / period magnitude bound for the Python model (stated)


def run_case(item):
    tier, case = item
    X.setup()
    from pce500.scheduler import TimerScheduler, TimerSource

    K = 4 if tier == "quick" else 6
    res = {"key": case, "paths": 0, "obligations": 0, "discharged": 0, "unknown": 0, "cex": [], "solver_time": 0.0, "samples": [], "inconclusive": []}

    def fn():
        eng = core.engine()
        pm, ps = SymInt.var("mti_period", BITS), SymInt.var("sti_period", BITS)
        nm, ns = SymInt.var("next_mti", BITS), SymInt.var("next_sti", BITS)
        cyc = SymInt.var("cycle", BITS)
        sch = TimerScheduler.__new__(TimerScheduler)
        sch.mti_period, sch.sti_period = pm, ps
        sch._next_mti, sch._next_sti = nm, ns
        if case == "disabled":
            sch.enabled = False
        else:
            sch.enabled = True
        if case == "zero-period":
            eng.assume(pm.t == core._bv(0))
        elif case == "enabled":
            eng.assume(pm >= 1)
            eng.assume(ps >= 1)
        # unwinding assumption: fewer than K whole periods behind
        if case != "zero-period":
            eng.assume(cyc < nm + K * pm)
        eng.assume((cyc < ns + K * ps) | (ps == 0))
        if case == "reset":
            base = SymInt.var("cycle_base", BITS)
            sch.reset(cycle_base=base)
            return {"reset": (sch._next_mti, sch._next_sti, base, pm, ps)}
        fired = list(sch.advance(cyc))
        return {"fired": fired, "pm": pm, "ps": ps, "nm": nm, "ns": ns, "cyc": cyc, "nm2": sch._next_mti, "ns2": sch._next_sti,
                "mti": TimerSource.MTI in fired, "sti": TimerSource.STI in fired, "enabled": sch.enabled}

    try:
        paths, stats = explore(fn, max_paths=5000, deadline_s=200)
    except core.PathLimit as e:
        res["inconclusive"].append(str(e))
        return res
    res["paths"] = len(paths)
    res["solver_time"] += stats.solver_time
    t = lambda v: core.term_of(v, 64)  # noqa: E731
    for p in paths:
        if p.status != "ok":
            if p.status == "inconclusive":
                res["inconclusive"].append(p.detail[:100])
            else:
                res["cex"].append({"key": f"{case}|raises|{type(p.exc).__name__}", "summary": repr(p.exc)[:160], "payload": None})
            continue
        v = p.value
        checks = []
        if "reset" in v:
            a, b, base, pm, ps = v["reset"]
            checks.append(("reset-mti", t(a) != t(base) + t(pm)))
            checks.append(("reset-sti", t(b) != t(base) + t(ps)))
        else:
            for nm_, tag in (("m", "mti"), ("s", "sti")):
                per, nxt, nxt2, fired = t(v["p" + nm_]), t(v["n" + nm_]), t(v["n" + nm_ + "2"]), v[tag]
                cyc = t(v["cyc"])
                should = z3.And(z3.BoolVal(bool(v["enabled"])), per > 0, cyc >= nxt)
                checks.append((f"{tag}:fires-iff-due", z3.BoolVal(bool(fired)) != should))
                if fired:
                    checks.append((f"{tag}:next-strictly-in-future", z3.Not(nxt2 > cyc)))
                    checks.append((f"{tag}:next-not-more-than-one-period-ahead", z3.Not(nxt2 - per <= cyc)))
                    checks.append((f"{tag}:phase-preserved", z3.Not(z3.Or(*[nxt2 == nxt + k * per for k in range(1, K + 2)]))))
                else:
                    checks.append((f"{tag}:target-unchanged-when-not-fired", nxt2 != nxt))
        for name, neg in checks:
            res["obligations"] += 1
            r, m, dt = X.solve(p.constraints, [neg])
            res["solver_time"] += dt
            if r == "unsat":
                res["discharged"] += 1
                if len(res["samples"]) < 1:
                    res["samples"].append({"case": case, "obligation": name, "negated_post_head": neg.sexpr()[:140]})
            elif r == "sat":
                ev = lambda n_: m.eval(z3.BitVec(n_, BITS), model_completion=True).as_long()  # noqa: E731
                payload = {"property": "C13", "kind": "timer", "key": f"{case}|{name}", "case": case, "obligation": name,
                           "state": {n_: ev(n_) for n_ in ("mti_period", "sti_period", "next_mti", "next_sti", "cycle", "cycle_base")}, "K": K}
                res["cex"].append({"key": f"{case}|{name}", "summary": f"{case}: {name}", "payload": payload})
            else:
                res["unknown"] += 1
    return res


def main(tier):
    t0 = time.time()
    X.setup()
    rep = common.Report("C13")
    cases = ["enabled", "disabled", "zero-period", "reset"]
    results = common.pool_map(run_case, [(tier, c) for c in cases])
    tot = {k: 0 for k in ("paths", "obligations", "discharged", "unknown")}
    solver_time = 0.0
    samples, inconcl, cex = [], [], {}
    for r in results:
        if "fatal" in r:
            rep.harness_errors.append(f"{r['item']}: {r['fatal']}\n{r.get('tb', '')}")
            continue
        for k in tot:
            tot[k] += r[k]
        solver_time += r["solver_time"]
        samples += r["samples"]
        inconcl += r["inconclusive"]
        for c in r["cex"]:
            cex.setdefault(c["key"], c)
    for k, c in sorted(cex.items()):
        if c["payload"] is None:
            rep.harness_errors.append(f"{k}: {c['summary']}")
        else:
            rep.counterexample(k, c["payload"], c["summary"])
    if tot["obligations"] < 40:
        rep.harness_errors.append(f"vacuity guard: only {tot['obligations']} obligations")
    if tot["unknown"] or inconcl:
        rep.harness_errors.append(f"inconclusive: {tot['unknown']} {inconcl[:3]}")
    code = rep.finish()
    wall = time.time() - t0
    K = 4 if tier == "quick" else 6
    coverage = {
        "obligations": tot["obligations"], "discharged": tot["discharged"], "evaluations": tot["paths"], "distinct_nontrivial": len(cases),
        "rule": "one symbolic call of TimerScheduler.advance/reset per configuration class (enabled, disabled, zero period, reset) from an arbitrary scheduler state",
        "samples": samples[:6], "checker_cmd": "./check C13 --tier " + tier, "trusted_base": ["z3 5.1.0", "engines/pysym"],
        "explanation": "Inductive step over arbitrary scheduler states: for all periods, targets and cycle values (40-bit, gap below K periods) z3 decides fired <=> enabled and period>0 and cycle>=next; next' > cycle; next' - period <= cycle; next' = next + k*period (phase kept, so ticking every cycle fires exactly once per boundary); untouched target when not fired; reset = base + period.",
        "solver_time_s": round(solver_time, 2),
        "functions_encoded": ["pce500.scheduler.TimerScheduler.advance", "TimerScheduler.reset"],
        "bounds": {"unwinding": f"catch-up loop unwound {K} times (gap < {K} periods, unwinding assumption in the path condition)", "magnitudes": f"{BITS}-bit periods / cycle counter",
                   "rust_timer": "sc62015/core/src/timer.rs is outside this check until the rsym engine carries TimerContext::tick_timers"},
    }
    assumptions = [f"cycle counter and periods below 2^{BITS} (Python ints are unbounded; the engine's interval guard would flag anything larger as inconclusive)",
                   "ISR bit setting by PCE500Emulator._tick_timers is part of C12's machine model, not of this scheduler check"]
    common.write_evidence("C13", tier, "other", coverage, assumptions, wall, len(rep.violations))
    print(f"C13 {tier}: paths={tot['paths']} obligations={tot['obligations']} discharged={tot['discharged']} cex={len(cex)} solver={solver_time:.1f}s wall={wall:.1f}s")
    return code
