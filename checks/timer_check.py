"""C13 (Python scheduler): timers fire exactly on period boundaries however time advances.

One call of the real ``TimerScheduler.advance`` from an arbitrary scheduler state
(periods, next targets, enabled flag, cycle counter all symbolic); z3 decides the
timer_spec obligations.  The catch-up loop is unwound up to K periods (unwinding
assumption: the gap is below K periods); inductive over call sequences because the
post-state is again an arbitrary scheduler state.
"""
from __future__ import annotations

import sys
import time

import z3

from . import common
from . import isa_exec as X
from engines.pysym import core
from engines.pysym.core import SymInt, explore

BITS = 40  # cycle counter / period magnitude bound for the Python model (stated)


def run_case(item):
    tier, case = item
    X.setup()
    from pce500.scheduler import TimerScheduler, TimerSource

    K = 4 if tier == "quick" else 6
    res = {"key": case, "paths": 0, "obligations": 0, "discharged": 0, "unknown": 0, "cex": [], "solver_time": 0.0, "samples": [], "inconclusive": []}

    def fn():
        eng = core.engine()
        pm, ps = SymInt.var("mti_period", BITS), SymInt.var("sti_period", BITS)
        nm, ns = SymInt.var("next_mti", BITS), SymInt.var("next_sti", BITS)
        cyc = SymInt.var("cycle", BITS)
        sch = TimerScheduler.__new__(TimerScheduler)
        sch.mti_period, sch.sti_period = pm, ps
        sch._next_mti, sch._next_sti = nm, ns
        if case == "disabled":
            sch.enabled = False
        else:
            sch.enabled = True
        if case == "zero-period":
            eng.assume(pm.t == core._bv(0))
        elif case == "enabled":
            eng.assume(pm >= 1)
            eng.assume(ps >= 1)
        # unwinding assumption: fewer than K whole periods behind
        if case != "zero-period":
            eng.assume(cyc < nm + K * pm)
        eng.assume((cyc < ns + K * ps) | (ps == 0))
        if case == "reset":
            base = SymInt.var("cycle_base", BITS)
            sch.reset(cycle_base=base)
            return {"reset": (sch._next_mti, sch._next_sti, base, pm, ps)}
        fired = list(sch.advance(cyc))
        return {"fired": fired, "pm": pm, "ps": ps, "nm": nm, "ns": ns, "cyc": cyc, "nm2": sch._next_mti, "ns2": sch._next_sti,
                "mti": TimerSource.MTI in fired, "sti": TimerSource.STI in fired, "enabled": sch.enabled}

    try:
        paths, stats = explore(fn, max_paths=5000, deadline_s=200)
    except core.PathLimit as e:
        res["inconclusive"].append(str(e))
        return res
    res["paths"] = len(paths)
    res["solver_time"] += stats.solver_time
    t = lambda v: core.term_of(v, 64)  # noqa: E731
    for p in paths:
        if p.status != "ok":
            if p.status == "inconclusive":
                res["inconclusive"].append(p.detail[:100])
            else:
                res["cex"].append({"key": f"{case}|raises|{type(p.exc).__name__}", "summary": repr(p.exc)[:160], "payload": None})
            continue
        v = p.value
        checks = []
        if "reset" in v:
            a, b, base, pm, ps = v["reset"]
            checks.append(("reset-mti", t(a) != t(base) + t(pm)))
            checks.append(("reset-sti", t(b) != t(base) + t(ps)))
        else:
            for nm_, tag in (("m", "mti"), ("s", "sti")):
                per, nxt, nxt2, fired = t(v["p" + nm_]), t(v["n" + nm_]), t(v["n" + nm_ + "2"]), v[tag]
                cyc = t(v["cyc"])
                should = z3.And(z3.BoolVal(bool(v["enabled"])), per > 0, cyc >= nxt)
                checks.append((f"{tag}:fires-iff-due", z3.BoolVal(bool(fired)) != should))
                if fired:
                    checks.append((f"{tag}:next-strictly-in-future", z3.Not(nxt2 > cyc)))
                    checks.append((f"{tag}:next-not-more-than-one-period-ahead", z3.Not(nxt2 - per <= cyc)))
                    checks.append((f"{tag}:phase-preserved", z3.Not(z3.Or(*[nxt2 == nxt + k * per for k in range(1, K + 2)]))))
                else:
                    checks.append((f"{tag}:target-unchanged-when-not-fired", nxt2 != nxt))
        for name, neg in checks:
            res["obligations"] += 1
            r, m, dt = X.solve(p.constraints, [neg], fast=True)
            res["solver_time"] += dt
            if r == "unsat":
                res["discharged"] += 1
                if len(res["samples"]) < 1:
                    res["samples"].append({"case": case, "obligation": name, "negated_post_head": neg.sexpr()[:140]})
            elif r == "sat":
                ev = lambda n_: m.eval(z3.BitVec(n_, BITS), model_completion=True).as_long()  # noqa: E731
                payload = {"property": "C13", "kind": "timer", "key": f"{case}|{name}", "case": case, "obligation": name,
                           "state": {n_: ev(n_) for n_ in ("mti_period", "sti_period", "next_mti", "next_sti", "cycle", "cycle_base")}, "K": K}
                res["cex"].append({"key": f"{case}|{name}", "summary": f"{case}: {name}", "payload": payload})
            else:
                res["unknown"] += 1
    return res


RBITS = int(__import__('os').environ.get('VERIF_TIMER_BITS', '0')) or 24  # magnitude bound for the Rust u64 timer state (wrap-around of next+period at 2^64 is outside the claim)


def run_rust_case(item):
    """Rust TimerContext::tick_timers / reset from the crate's LLVM IR on symbolic 64-bit state, compared with
    timer_spec and with the Python TimerScheduler driven by the same values."""
    tier, case = item
    X.setup()
    from engines.rsym import build, interp
    from pce500.scheduler import TimerScheduler, TimerSource

    img, _b = build.image()
    K = 4 if tier == "quick" else 6
    key = "rust:" + case
    res = {"key": key, "paths": 0, "obligations": 0, "discharged": 0, "unknown": 0, "cex": [], "solver_time": 0.0, "samples": [], "inconclusive": []}
    names = {"mti_period": 52, "sti_period": 54, "next_mti": 56, "next_sti": 58, "cycle": 60}
    # zero-extended narrower variables: the high bits are constants, which keeps the bit-blasted adders small
    V = {n: z3.ZeroExt(64 - RBITS, z3.BitVec("rs_" + n, RBITS)) for n in names}
    isr0 = z3.BitVec("rs_isr", 8)
    preserve = case != "rust-no-phase"

    def fn():
        eng = core.engine()
        if case == "disabled":
            enabled = 0
        else:
            enabled = 1
        if case == "zero-period":
            eng.assume(V["mti_period"] == 0)
        elif case != "reset":
            eng.assume(z3.UGE(V["mti_period"], 1))
        if case not in ("reset",):
            eng.assume(z3.Or(V["sti_period"] == 0, z3.UGE(V["sti_period"], 1)))
            eng.assume(z3.Or(V["mti_period"] == 0, z3.ULT(V["cycle"], V["next_mti"] + K * V["mti_period"])))
            eng.assume(z3.Or(V["sti_period"] == 0, z3.ULT(V["cycle"], V["next_sti"] + K * V["sti_period"])))
        ins = {50: enabled, 51: 1 if preserve else 0, 62: z3.ZeroExt(24, isr0)}
        ins64 = {i: V[n] for n, i in names.items()}
        out = {}
        out64 = {}
        hooks = {"verif_in": lambda m, i: ins.get(i, 0), "verif_out": lambda m, i, v: out.__setitem__(i, v),
                 "verif_in64": lambda m, i: ins64.get(i, 0), "verif_out64": lambda m, i, v: out64.__setitem__(i, v),
                 "verif_load": lambda m, a: 0, "verif_store": lambda m, a, v: None}
        m = interp.Machine(img, hooks)
        m.array_mode = True
        m.run(img.mod.functions["harness_timer_reset" if case == "reset" else "harness_timer"], [])
        py = None
        if case in ("enabled", "zero-period", "disabled"):
            sch = TimerScheduler.__new__(TimerScheduler)
            mk = lambda n: core.SymInt.from_term(V[n], 0, (1 << RBITS) - 1)  # noqa: E731
            sch.mti_period, sch.sti_period = mk("mti_period"), mk("sti_period")
            sch._next_mti, sch._next_sti = mk("next_mti"), mk("next_sti")
            sch.enabled = bool(enabled)
            fired = list(sch.advance(mk("cycle")))
            py = {"mti": TimerSource.MTI in fired, "sti": TimerSource.STI in fired, "nm": sch._next_mti, "ns": sch._next_sti}
        return (out, out64), py, enabled

    try:
        paths, stats = explore(fn, max_paths=5000, deadline_s=200, timeout_ms=8000)
    except core.PathLimit as e:
        res["inconclusive"].append(str(e))
        return res
    res["paths"] = len(paths)
    res["solver_time"] += stats.solver_time
    T = lambda v, b: interp.to_term(v, b)  # noqa: E731
    t_start = time.time()
    for p in paths:
        if time.time() - t_start > 240:
            res["inconclusive"].append("obligation time budget (240 s) exhausted")
            break
        if p.status != "ok":
            if p.status == "inconclusive":
                res["inconclusive"].append(p.detail[:100])
            else:
                res["cex"].append({"key": f"{key}|raises|{type(p.exc).__name__}", "summary": repr(p.exc)[:200], "payload": None})
            continue
        (out, out64), py, enabled = p.value
        j64 = lambda i: T(out64[i], 64)  # noqa: E731
        checks = []
        if case == "reset":
            # an enabled timer with a non-zero period is re-armed one period after the reset point
            checks.append(("reset-mti", z3.And(z3.UGT(V["mti_period"], 0), j64(2) != V["cycle"] + V["mti_period"])))
            checks.append(("reset-sti", z3.And(z3.UGT(V["sti_period"], 0), j64(4) != V["cycle"] + V["sti_period"])))
        else:
            isr1 = z3.Extract(7, 0, T(out[6], 32))
            want_isr = isr0
            for tag, fi, ni, bit in (("mti", 0, 2, 1), ("sti", 1, 4, 2)):
                per, nxt, cyc = V[tag + "_period"], V["next_" + tag], V["cycle"]
                fired = T(out[fi], 32) != 0
                nxt2 = j64(ni)
                should = z3.And(z3.BoolVal(bool(enabled)), z3.UGT(per, 0), z3.UGE(cyc, nxt))
                checks.append((f"{tag}:fires-iff-due", fired != should))
                checks.append((f"{tag}:next-strictly-in-future", z3.And(fired, z3.Not(z3.UGT(nxt2, cyc)))))
                if preserve:
                    checks.append((f"{tag}:next-not-more-than-one-period-ahead", z3.And(fired, z3.Not(z3.ULE(nxt2 - per, cyc)))))
                    checks.append((f"{tag}:phase-preserved", z3.And(fired, z3.Not(z3.Or(*[nxt2 == nxt + k * per for k in range(1, K + 2)])))))
                else:
                    checks.append((f"{tag}:rearmed-one-period-from-now", z3.And(fired, nxt2 != cyc + per)))
                checks.append((f"{tag}:target-unchanged-when-not-fired", z3.And(z3.Not(fired), nxt2 != nxt)))
                want_isr = z3.If(should, want_isr | bit, want_isr)
                if py is not None:
                    checks.append((f"{tag}:rust-vs-python-fired", fired != z3.BoolVal(bool(py[tag]))))
                    checks.append((f"{tag}:rust-vs-python-next", nxt2 != core.term_of(py["n" + tag[0]], 64)))
            checks.append(("status-bits-set-for-every-fired-timer", isr1 != want_isr))
        for name, neg in checks:
            res["obligations"] += 1
            r, m_, dt = X.solve(p.constraints, [neg], fast=True)
            res["solver_time"] += dt
            if r == "unsat":
                res["discharged"] += 1
                if len(res["samples"]) < 1:
                    res["samples"].append({"case": key, "obligation": name, "negated_post_head": neg.sexpr()[:140]})
            elif r == "sat":
                ev = lambda t: m_.eval(t, model_completion=True).as_long()  # noqa: E731
                payload = {"property": "C13", "kind": "timer", "key": f"{key}|{name}", "case": case, "obligation": name, "rust": True, "K": K,
                           "state": {n: ev(V[n]) for n in names}, "isr": ev(isr0), "enabled": enabled, "preserve": preserve}
                res["cex"].append({"key": f"{key}|{name}", "summary": f"{key}: {name}", "payload": payload})
            else:
                res["unknown"] += 1
    return res


def main(tier):
    t0 = time.time()
    X.setup()
    rep = common.Report("C13")
    cases = ["enabled", "disabled", "zero-period", "reset"]
    results = common.pool_map(run_case, [(tier, c) for c in cases])
    from engines.rsym import build

    build.ensure_built()
    build.image()
    rs_cases = ["enabled", "disabled", "zero-period", "reset", "rust-no-phase"]
    results += common.pool_map(run_rust_case, [(tier, c) for c in rs_cases])
    cases = cases + ["rust:" + c for c in rs_cases]
    tot = {k: 0 for k in ("paths", "obligations", "discharged", "unknown")}
    solver_time = 0.0
    samples, inconcl, cex = [], [], {}
    for r in results:
        if "fatal" in r:
            rep.harness_errors.append(f"{r['item']}: {r['fatal']}\n{r.get('tb', '')}")
            continue
        for k in tot:
            tot[k] += r[k]
        solver_time += r["solver_time"]
        samples += r["samples"]
        inconcl += r["inconclusive"]
        for c in r["cex"]:
            cex.setdefault(c["key"], c)
    for k, c in sorted(cex.items()):
        if c["payload"] is None:
            rep.harness_errors.append(f"{k}: {c['summary']}")
        else:
            rep.counterexample(k, c["payload"], c["summary"])
    if tot["obligations"] < 40:
        rep.harness_errors.append(f"vacuity guard: only {tot['obligations']} obligations")
    if tot["unknown"] or inconcl:
        rep.harness_errors.append(f"inconclusive: {tot['unknown']} {inconcl[:3]}")
    code = rep.finish()
    wall = time.time() - t0
    K = 4 if tier == "quick" else 6
    coverage = {
        "obligations": tot["obligations"], "discharged": tot["discharged"], "evaluations": tot["paths"], "distinct_nontrivial": len(cases),
        "rule": "one symbolic call of TimerScheduler.advance/reset per configuration class (enabled, disabled, zero period, reset) from an arbitrary scheduler state",
        "samples": samples[:6], "checker_cmd": "./check C13 --tier " + tier, "trusted_base": ["z3 5.1.0", "engines/pysym"],
        "explanation": "Inductive step over arbitrary scheduler states: for all periods, targets and cycle values (40-bit, gap below K periods) z3 decides fired <=> enabled and period>0 and cycle>=next; next' > cycle; next' - period <= cycle; next' = next + k*period (phase kept, so ticking every cycle fires exactly once per boundary); untouched target when not fired; reset = base + period.",
        "solver_time_s": round(solver_time, 2),
        "functions_encoded": ["pce500.scheduler.TimerScheduler.advance", "TimerScheduler.reset", "Rust (LLVM IR): sc62015_core::timer::TimerContext::tick_timers (both preserve_phase settings), reset, MemoryImage::read/write_internal_byte"],
        "bounds": {"unwinding": f"catch-up loop unwound {K} times (gap < {K} periods, unwinding assumption in the path condition)", "magnitudes": f"{BITS}-bit periods / cycle counter",
                   "rust_timer": f"u64 state below 2^{RBITS} (wrapping_add at 2^64 is outside the claim); tick_timers_with_keyboard / CoreRuntime stepping are outside"},
    }
    assumptions = [f"cycle counter and periods below 2^{BITS} (Python ints are unbounded; the engine's interval guard would flag anything larger as inconclusive)",
                   "ISR bit setting by PCE500Emulator._tick_timers is part of C12's machine model, not of this scheduler check"]
    common.write_evidence("C13", tier, "other", coverage, assumptions, wall, len(rep.violations))
    print(f"C13 {tier}: paths={tot['paths']} obligations={tot['obligations']} discharged={tot['discharged']} cex={len(cex)} solver={solver_time:.1f}s wall={wall:.1f}s")
    return code
