"""Concrete replay of counterexamples against the unmodified real code (no import hook).

exit 1 = the violation reproduces, exit 0 = it does not, exit 2 = replay error.
"""
from __future__ import annotations

import json
import sys

REG_MASK = {"BA": 0xFFFF, "I": 0xFFFF, "X": 0xFFFFF, "Y": 0xFFFFF, "U": 0xFFFFF, "S": 0xFFFFF, "PC": 0xFFFFF}


def _mk_machine(rec):
    from sc62015.pysc62015.emulator import Emulator, RegisterName
    from binja_test_mocks.eval_llil import Memory

    size = 0x1000000
    mem = bytearray([rec.get("mem_default", 0) & 0xFF]) * size
    for a, v in rec.get("mem", {}).items():
        a = int(a)
        if 0 <= a < size:
            mem[a] = v
    pc = rec["pc"]
    for i, b in enumerate(rec["code"]):
        mem[pc + i] = b
    log = []

    def rd(a):
        if not (0 <= a < size):
            raise IndexError(f"address out of range: {a:#x}")
        log.append(("r", a))
        return mem[a]

    def wr(a, v):
        if not (0 <= a < size):
            raise IndexError(f"address out of range: {a:#x}")
        log.append(("w", a))
        mem[a] = v

    emu = Emulator(Memory(rd, wr), reset_on_init=False)
    for name, val in rec["regs"].items():
        emu.regs._values[RegisterName[name]] = val
    return emu, mem, log


def replay_isa_exec(rec):
    from sc62015.pysc62015.emulator import RegisterName

    emu, mem, log = _mk_machine(rec)
    pc = rec["pc"]
    try:
        emu.execute_instruction(pc)
    except Exception as e:  # noqa: BLE001
        print(f"real code raised {type(e).__name__}: {e}")
        return True
    prop = rec["property"]
    expects = [e for e in rec["expect"] if e is not None]
    if not expects:
        print("no applicable expectation (assumptions false in the model)")
        return False
    all_mismatch = True
    for e in expects:
        mism = []
        if prop == "C04":
            for k, want in e["regs"].items():
                got = emu.regs._values[RegisterName[k]] & REG_MASK[k]
                if got != want:
                    mism.append(f"{k}: got {got:#x} want {want:#x}")
            f = emu.regs._values[RegisterName.F]
            if e["C"] is not None and (f & 1) != e["C"]:
                mism.append(f"C: got {f & 1} want {e['C']}")
            if e["Z"] is not None and ((f >> 1) & 1) != e["Z"]:
                mism.append(f"Z: got {(f >> 1) & 1} want {e['Z']}")
            if bool(emu.state.halted) != e["halted"]:
                mism.append(f"halted: got {emu.state.halted} want {e['halted']}")
            havoc = {a: m for a, m in e["havoc"]}
            emem = {int(a): v for a, v in e["mem"].items()}
            addrs = set(emem) | {rec["x_frame"]} | {a for k, a in log if k == "w"}
            for a in sorted(addrs):
                if not (0 <= a < len(mem)):
                    continue
                want = emem.get(a, e["mem_default"])
                # the expectation's array is the spec's post memory: default = initial default
                if a not in emem:
                    # untouched by the spec: initial value (code bytes included)
                    want = _initial(rec, a)
                m = havoc.get(a, 0)
                if (mem[a] & ~m & 0xFF) != (want & ~m & 0xFF):
                    mism.append(f"mem[{a:#x}]: got {mem[a]:#x} want {want:#x}")
        else:  # C03: access sets and pointer registers
            lo, hi = pc, pc + 16
            w = sorted({a for k, a in log if k == "w"})
            r = sorted({a for k, a in log if k == "r" and not (lo <= a < hi)})
            if w != e["writes"]:
                mism.append(f"writes: got {[hex(x) for x in w]} want {[hex(x) for x in e['writes']]}")
            allowed = set(e["reads"]) | set(e["areads"])
            extra = [a for a in r if a not in allowed]
            missing = [a for a in e["reads"] if a not in r]
            if extra:
                mism.append(f"unpredicted reads: {[hex(x) for x in extra]}")
            if missing:
                mism.append(f"predicted reads that did not happen: {[hex(x) for x in missing]}")
            for k in ("X", "Y", "U", "S", "I"):
                got = emu.regs._values[RegisterName[k]] & REG_MASK[k]
                if got != e["regs"][k]:
                    mism.append(f"{k}: got {got:#x} want {e['regs'][k]:#x}")
        if not mism:
            all_mismatch = False
        else:
            print("mismatch vs documented reading:", "; ".join(mism[:6]))
    return all_mismatch


def _initial(rec, a):
    pc = rec["pc"]
    if pc <= a < pc + len(rec["code"]):
        return rec["code"][a - pc]
    v = rec.get("mem", {}).get(str(a))
    return rec.get("mem_default", 0) if v is None else v


def main(path):
    from binja_test_mocks import binja_api  # noqa: F401  (installs the binaryninja mock modules)

    rec = json.load(open(path))
    kind = rec.get("kind")
    if kind == "isa_exec":
        ok = replay_isa_exec(rec)
    else:
        mod = __import__(f"checks.replay_{kind}", fromlist=["replay"])
        ok = mod.replay(rec)
    print("REPRODUCED" if ok else "NOT-REPRODUCED", rec.get("key"), rec.get("text", ""))
    return 1 if ok else 0


if __name__ == "__main__":
    try:
        sys.exit(main(sys.argv[1]))
    except SystemExit:
        raise
    except BaseException as e:  # noqa: BLE001
        import traceback

        traceback.print_exc()
        sys.exit(2)
