"""C12 (Rust runtime): interrupts are taken only when enabled and pending, and are undone by RETI.

One ``CoreRuntime::step(1)`` of the real runtime (LLVM IR, rsym) from an arbitrary interrupt-controller state: IMR, ISR,
the pending/in-interrupt/key-latch flags, power state, F, S, the ten bytes around S, the interrupt vector and (for the
register-writing programs) the written value are z3 variables; the instruction at PC is one of a small set of programs
(NOP, RETI, HALT, OFF, MV (FB),n, MV (FC),n).  z3 decides the irq_spec obligations below.  Timers run in a second group of
cases with symbolic targets.  Induction over runs: the obligations are step relations from an arbitrary state.
"""
from __future__ import annotations

import sys
import time

import z3

from . import common
from . import isa_exec as X
from engines.pysym import core
from engines.pysym.core import explore

PC0 = 0xB8010
PROGRAMS = {"nop": [0x00], "reti": [0x01], "halt": [0xDE], "off": [0xDF], "wr_imr": [0xCC, 0xFB, None], "wr_isr": [0xCC, 0xFC, None]}
POWER = {"running": (0, 0), "halted": (1, 0), "off": (1, 1)}


def bv(v, n):
    return z3.BitVecVal(v, n)


def irq_obligations(prog, power, timers, V, O):
    """irq_spec: the step relation of the property statement, as negated obligations (name, formula)."""
    imr, isr, F, imm, pend, inint, latch, S, st, vec, mt = (V[k] for k in ("imr", "isr", "F", "imm", "pend", "inint", "latch", "S", "st", "vec", "mt"))
    ok_, pc1, s1, f1, imr1, isr1 = O["ok"], O["pc"], O["s"], O["f"], O["imr"], O["isr"]
    pend1, inint1, halted1, off1, icount, total = O["pend"], O["inint"], O["halted"], O["off"], O["icount"], O["total"]
    mem1 = O["mem"]
    if prog == "press_on":
        # event step (Python machine): the ON key raises its status bit outside any instruction.  "A pending but masked request
        # is not lost": the request must be recorded in every controller state (inside a handler too), and the event must not
        # touch anything else.
        ev = []
        if V.get("needs_pending_flag"):
            ev.append(("event-records-request", z3.Not(z3.And((isr1 & 0x08) == 0x08, pend1 == 1))))
        same = z3.And(pc1 == bv(PC0, 20), s1 == S, imr1 == imr, isr1 == (isr | 0x08), total == 0, icount == 0, inint1 == inint,
                      z3.Extract(1, 0, f1) == z3.Extract(1, 0, F), *[mem1[i] == st[i] for i in range(10)])
        ev.append(("event-changes-nothing-else", z3.Not(same)))
        return ev
    plen = len(PROGRAMS[prog])
    o = lambda i, bits=32: O["next_mti"] if i == 17 else O["next_sti"]  # noqa: E731
    taken = total == 1
    executed = icount == 1
    checks = []
    checks.append(("at-most-one-interrupt-per-step", z3.UGT(total, 1)))
    checks.append(("step-succeeds", z3.And(ok_ == 0, z3.UGE(S, 5))))
    # Two orders are legal inside one step: (A) the instruction at PC runs, then the interrupt is taken; (B) the interrupt is
    # taken first (resume PC = PC0) and, in models that then run the handler's first instruction in the same step, one NOP of
    # the handler executes.  Each order fixes the state the frame is built from.
    retpc = z3.Extract(19, 0, z3.Concat(st[9], st[8], st[7]))
    if prog == "reti":
        preA = {"s": S + 5, "f": st[6], "imr": st[5], "pc": retpc}
    else:
        preA = {"s": S, "f": F, "imr": imm if prog == "wr_imr" else imr, "pc": bv(PC0 + plen, 20)}
    preB = {"s": S, "f": F, "imr": imr, "pc": bv(PC0, 20)}
    isr_any = isr | isr1 | (imm if prog == "wr_isr" else bv(0, 8))

    def aspects(pre, cont):
        base = z3.K(z3.BitVecSort(20), bv(0, 8))
        fr = z3.Store(z3.Store(z3.Store(z3.Store(z3.Store(base, pre["s"] - 5, pre["imr"]), pre["s"] - 4, pre["f"]), pre["s"] - 3, z3.Extract(7, 0, pre["pc"])),
                               pre["s"] - 2, z3.Extract(15, 8, pre["pc"])), pre["s"] - 1, z3.ZeroExt(4, z3.Extract(19, 16, pre["pc"])))
        # only C and Z (bits 0, 1) of F are architectural: the F byte of the frame and the restored F are compared on those bits
        fmask = lambda i: z3.If(S - 5 + i == pre["s"] - 4, bv(0x03, 8), bv(0xFF, 8))  # noqa: E731
        frame_ok = z3.And(*[z3.Or(z3.Not(z3.And(z3.UGE(S - 5 + i, pre["s"] - 5), z3.ULT(S - 5 + i, pre["s"]))), (mem1[i] & fmask(i)) == (z3.Select(fr, S - 5 + i) & fmask(i))) for i in range(10)])
        return {"master": (pre["imr"] & 0x80) != 0, "source": (pre["imr"] & isr_any & 0x0F) != 0, "five": s1 == pre["s"] - 5, "frame": frame_ok,
                "mask": imr1 == (pre["imr"] & 0x7F), "vector": cont, "flags": (f1 & 3) == (pre["f"] & 3)}

    A = aspects(preA, z3.And(pc1 == vec, executed))
    Bo = aspects(preB, z3.Or(z3.And(pc1 == vec, z3.Not(executed)), z3.And(pc1 == vec + 1, executed)))
    names = {"master": "taken-only-when-master-enabled", "source": "taken-only-when-a-source-is-unmasked-and-pending", "five": "taken-pushes-exactly-five-bytes",
             "frame": "taken-frame-is-imr-f-pc", "mask": "taken-clears-master-enable-only", "vector": "taken-continues-at-vector", "flags": "taken-keeps-flags"}
    # the whole delivery must be explained by ONE of the orders ...
    checks.append(("taken-interrupt-is-a-well-formed-delivery", z3.And(taken, z3.Not(z3.Or(z3.And(*A.values()), z3.And(*Bo.values()))))))
    # ... and, for diagnosis, each aspect by at least one of them
    for k, nm in names.items():
        checks.append((nm, z3.And(taken, z3.Not(z3.Or(A[k], Bo[k])))))
    checks.append(("taken-marks-in-interrupt", z3.And(taken, inint1 == 0)))
    # O3 promptness: running, not inside a handler, master + an unmasked pending source => taken in this very step.
    # A model that tracks requests in a separate flag is held to "status bit set outside a handler => flag set" as its
    # representation invariant (assumed before, demanded after).
    flagged = bool(V.get("needs_pending_flag"))
    inv = z3.Or(inint == 1, (isr & 0x0F) == 0, pend == 1) if flagged else z3.BoolVal(True)
    if prog == "nop" and power == "running" and not timers:
        checks.append(("unmasked-pending-request-is-taken-promptly", z3.And(inv, inint == 0, (imr & 0x80) != 0, (imr & isr & 0x0F) != 0, z3.Not(taken))))
    if flagged and prog in ("nop", "wr_imr", "reti") and not timers:
        lost = z3.And(inv, inint1 == 0, (isr1 & 0x0F) != 0, pend1 == 0)
        checks.append(("pending-request-is-not-lost|flag-was-set", z3.And(lost, pend == 1)))
        checks.append(("pending-request-is-not-lost|flag-was-clear", z3.And(lost, pend == 0)))
    # O4 not taken: nothing is pushed
    if prog in ("nop",) and power == "running":
        checks.append(("not-taken-leaves-stack-and-mask", z3.And(z3.Not(taken), z3.Or(s1 != S, imr1 != imr, (f1 & 3) != (F & 3), z3.Or(*[mem1[i] != st[i] for i in range(10)])))))
        checks.append(("not-taken-executes-the-instruction", z3.And(z3.Not(taken), z3.Or(pc1 != PC0 + plen, z3.Not(executed)))))
    # O5 halted / off: nothing executes; resumes exactly when a status bit is pending
    if power in ("halted", "off") and not timers:
        checks.append(("halted-cpu-executes-nothing", z3.And(executed, (isr & 0x7F) == 0, latch == 0)))
        checks.append(("halted-cpu-stays-halted-without-pending-status", z3.And((isr & 0x7F) == 0, latch == 0, halted1 == 0)))
        if power == "halted":
            checks.append(("halted-cpu-resumes-when-a-status-bit-is-pending", z3.And((isr & 0x7F) != 0, inint == 0, halted1 == 1)))
    if power == "off" and timers:
        # while it stays off (no status bit pending to wake it)
        checks.append(("powered-off-cpu-stops-both-timers", z3.And((isr & 0x0F) == 0, z3.Or(o(17, 8) != mt["next_mti"], o(18, 8) != mt["next_sti"], ((isr1 ^ isr) & 0x03) != 0))))
    # O7 RETI without a new delivery: IMR, F, PC and S restored from the frame
    if prog == "reti" and power == "running":
        checks.append(("reti-restores-imr-f-pc-s", z3.And(z3.Not(taken), executed, z3.Or(s1 != S + 5, imr1 != st[5], (f1 & 3) != (st[6] & 3), pc1 != z3.Extract(19, 0, z3.Concat(st[9], st[8], st[7]))))))
        checks.append(("reti-executes", z3.And(z3.Not(taken), z3.Not(executed))))
    # the delivery obligations are decided separately for states with a key / ON-key request around (status bit set before or
    # after the step, or the key latch set) and for states without one, so that a known defect of the first class cannot hide a
    # violation in the second
    kon = z3.Or(((isr | isr1) & 0x0C) != 0, latch == 1)
    out = []
    for name, neg in checks:
        if name.startswith("taken-"):
            out.append((name + "|key-or-onkey-request", z3.And(neg, kon)))
            out.append((name + "|timer-requests-only", z3.And(neg, z3.Not(kon))))
        else:
            out.append((name, neg))
    return out


def run_rust_case(item):
    tier, (prog, power, timers) = item
    X.setup()
    from engines.rsym import build, interp

    img, _b = build.image()
    key = f"rust:{prog}:{power}:{'timers' if timers else 'notimers'}"
    res = {"key": key, "paths": 0, "obligations": 0, "discharged": 0, "unknown": 0, "cex": [], "solver_time": 0.0, "samples": [], "inconclusive": []}
    B = z3.BitVec
    imr, isr, F, imm = B("imr", 8), B("isr", 8), B("F", 8), B("imm", 8)
    pend, inint, latch = B("pend", 1), B("inint", 1), B("latch", 1)
    S = bv(0xBB000, 20)  # the stack pointer is fixed (stack arithmetic over all S is C05's subject); its contents stay symbolic
    ext = z3.Array("ext", z3.BitVecSort(64), z3.BitVecSort(8))  # initial external memory: arbitrary
    E8 = lambda a20: z3.Select(ext, z3.ZeroExt(44, a20))  # noqa: E731
    vec = z3.Extract(19, 0, z3.Concat(E8(bv(0xFFFFC, 20)), E8(bv(0xFFFFB, 20)), E8(bv(0xFFFFA, 20))))
    st = [E8(S - 5 + i) for i in range(10)]
    code = [imm if b is None else b for b in PROGRAMS[prog]]
    plen = len(code)
    ins = {720: PC0, 721: 0xBB000, 722: z3.ZeroExt(24, F), 723: z3.ZeroExt(24, imr), 724: z3.ZeroExt(24, isr), 725: z3.ZeroExt(31, pend),
           726: POWER[power][0], 727: POWER[power][1], 728: z3.ZeroExt(31, inint), 729: z3.ZeroExt(31, latch), 736: 1, 749: 0}
    for i, b in enumerate(code + [0] * (8 - plen)):
        ins[700 + i] = b if isinstance(b, int) else z3.ZeroExt(24, b)
    # only the modelled sources: IMR bits 4-6 and ISR bits 4-7 stay clear (every changed bit of these registers costs the
    # runtime's bit-watch bookkeeping a three-way fork)
    isr_mask = 0x80 if power == "halted" else 0xF0  # a halted CPU is woken by any of the seven status bits
    assumptions = [(imr & 0x70) == 0, (isr & isr_mask) == 0, (imm & (0x70 if prog == "wr_imr" else 0xF0)) == 0]
    if prog in ("wr_imr", "wr_isr"):
        # register-writing programs: master enable + the MTI source only (old and new value: two bits each)
        assumptions += [(imr & 0x7E) == 0, (isr & 0xFE) == 0, (imm & (0x7E if prog == "wr_imr" else 0xFE)) == 0]
    if prog == "reti":
        assumptions += [(imr & 0x7E) == 0, (isr & 0xFE) == 0, (st[5] & 0x7E) == 0]  # old IMR and the popped IMR: master + MTI
    mt = {}
    if timers:
        # timers on: fixed periods (3 and 5 cycles), targets symbolic within 0..255 of the (zero) cycle counter
        for nm, idx in (("mti_period", 731), ("sti_period", 732), ("next_mti", 733), ("next_sti", 734)):
            mt[nm] = B(nm, 8)
            ins[idx] = z3.ZeroExt(24, mt[nm])
        ins[730] = 1
        # with the timers running only the master enable and the two timer sources vary; no key latch
        assumptions += [mt["mti_period"] == 3, mt["sti_period"] == 5, (imr & 0x7C) == 0, (isr & 0xFC) == 0, latch == 0]

    def prep():
        hooks = {"verif_in": lambda m, i: ins.get(i, 0), "verif_out": lambda m, i, v: None, "verif_load": lambda m, a: 0, "verif_store": lambda m, a, v: None}
        m = interp.Machine(img, hooks)
        m.STEP_LIMIT = 20_000_000
        m.array_mode = True
        m.symbolic_alloc = {0x100000: "ext"}
        m.run(img.mod.functions["harness_irq_prepare"], [])
        return m.snapshot(), m.steps

    # CoreRuntime::new() + state set-up: a handful of paths (the IMR/ISR write hook compares old and new value);
    # each prepared machine is snapshotted and the step is explored from it under that path's condition
    try:
        ppaths, pst = explore(prep, max_paths=64, timeout_ms=10000, assumptions=assumptions)
    except core.PathLimit as e:
        res["inconclusive"].append("preparation: " + str(e))
        return res
    res["solver_time"] += pst.solver_time
    paths = []
    for pp in ppaths:
        if pp.status != "ok":
            res["inconclusive"].append(f"preparation path: {pp.status} {pp.detail or pp.exc!r}"[:160])
            continue
        snap, psteps = pp.value

        def fn(snap=snap, psteps=psteps):
            out = {}
            hooks = {"verif_in": lambda m, i: ins.get(i, 0), "verif_out": lambda m, i, v: out.__setitem__(i, v), "verif_load": lambda m, a: 0, "verif_store": lambda m, a, v: None}
            m = interp.Machine(img, hooks)
            m.STEP_LIMIT = 20_000_000
            m.array_mode = True
            m.symbolic_alloc = {0x100000: "ext"}
            m.resume(snap)
            m.run(img.mod.functions["harness_irq_step"], [])
            return out, m.steps + psteps

        try:
            sp, sst = explore(fn, max_paths=3000, deadline_s=900, timeout_ms=10000, assumptions=list(pp.constraints))
        except core.PathLimit as e:
            res["inconclusive"].append(str(e))
            continue
        res["solver_time"] += sst.solver_time
        paths += sp
    res["paths"] = len(paths)
    T = interp.to_term
    for p in paths:
        if p.status != "ok":
            if p.status == "inconclusive":
                res["inconclusive"].append(p.detail[:100])
            else:
                res["cex"].append({"key": f"{key}|raises|{type(p.exc).__name__}", "summary": repr(p.exc)[:200], "payload": None})
            continue
        out, steps = p.value
        o = lambda i, bits=32: z3.Extract(bits - 1, 0, T(out[i], 32)) if bits < 32 else T(out[i], 32)  # noqa: E731
        O = {"ok": o(0), "pc": o(1, 20), "s": o(2, 20), "f": o(3, 8), "imr": o(4, 8), "isr": o(5, 8), "pend": o(6, 1), "inint": o(7, 1), "halted": o(8, 1), "off": o(9, 1),
             "icount": o(16), "total": o(20), "mem": [o(30 + i, 8) for i in range(10)], "next_mti": o(17, 8), "next_sti": o(18, 8)}
        V = {"imr": imr, "isr": isr, "F": F, "imm": imm, "pend": pend, "inint": inint, "latch": latch, "S": S, "st": st, "vec": vec, "mt": mt}
        checks = irq_obligations(prog, power, timers, V, O)
        for name, neg in checks:
            res["obligations"] += 1
            r_, m_, dt = X.solve(list(p.constraints) + assumptions, [neg])
            res["solver_time"] += dt
            if r_ == "unsat":
                res["discharged"] += 1
                if len(res["samples"]) < 1:
                    res["samples"].append({"case": key, "obligation": name, "rust_ir_steps": steps, "negated_post_head": neg.sexpr()[:140]})
            elif r_ == "sat":
                inputs = {str(i_): (v_ if type(v_) is int else m_.eval(v_, model_completion=True).as_long()) for i_, v_ in ins.items()}
                ev = lambda t: m_.eval(t, model_completion=True).as_long()  # noqa: E731
                inputs.update({"749": 1, "708": ev(E8(bv(0xFFFFA, 20))), "709": ev(E8(bv(0xFFFFB, 20))), "710": ev(E8(bv(0xFFFFC, 20)))})
                inputs.update({str(737 + i): ev(st[i]) for i in range(10)})
                model = {str(d): m_[d].as_long() for d in m_.decls() if hasattr(m_[d], "as_long")}
                payload = {"property": "C12", "kind": "irq", "rust": True, "key": f"{key}|{name}", "prog": prog, "power": power, "timers": timers, "inputs": inputs, "model": model, "obligation": name}
                res["cex"].append({"key": f"{key}|{name}", "summary": f"{key}: {name} imr={model.get('imr', 0):#x} isr={model.get('isr', 0):#x} pend={model.get('pend', 0)} inint={model.get('inint', 0)} latch={model.get('latch', 0)}", "payload": payload})
            else:
                res["unknown"] += 1
    return res


def run_python_case(item):
    """The Python machine: one PCE500Emulator.step (the real method, pysym) from the same arbitrary controller state."""
    tier, (prog, power, timers) = item
    X.setup()
    from engines.pysym.core import SymInt
    from engines.pysym.containers import SymArrayBytes

    key = f"python:{prog}:{power}:{'timers' if timers else 'notimers'}"
    res = {"key": key, "paths": 0, "obligations": 0, "discharged": 0, "unknown": 0, "cex": [], "solver_time": 0.0, "samples": [], "inconclusive": []}
    B = z3.BitVec
    S = bv(0xBB000, 20)
    program = PROGRAMS.get(prog, [0x00])  # event cases (press_on) sit on a NOP
    code_t = [B("imm", 8) if b is None else b for b in program]

    def fn():
        from pce500.emulator import PCE500Emulator
        from sc62015.pysc62015.emulator import RegisterName
        from sc62015.pysc62015.constants import INTERNAL_MEMORY_START as IM

        emu = PCE500Emulator(trace_enabled=False, perfetto_trace=False, enable_new_tracing=False, enable_display_trace=False, save_lcd_on_exit=False)
        ext = SymArrayBytes("ext0", 1024 * 1024)
        emu.memory.external_memory = ext
        rom = SymArrayBytes("rom0", 0x40000)
        emu.memory.load_rom(rom)
        for ov in emu.memory.overlays:
            if ov.name == "internal_rom":
                ov.data = rom
        imm = SymInt.var("imm", 8)
        for i, b in enumerate(program):
            emu.memory.write_byte(PC0 + i, imm if b is None else b)
        imr, isr = SymInt.var("imr", 8), SymInt.var("isr", 8)
        eng = core.engine()
        eng.assume((imr & 0x70) == 0)
        eng.assume((isr & (0x80 if power == "halted" else 0xF0)) == 0)
        eng.assume((imm & (0x70 if prog == "wr_imr" else 0xF0)) == 0)
        if prog in ("wr_imr", "wr_isr"):
            eng.assume((imr & 0x7E) == 0)
            eng.assume((isr & 0xFE) == 0)
            eng.assume((imm & (0x7E if prog == "wr_imr" else 0xFE)) == 0)
        for i in range(len(program), 12):
            emu.memory.write_byte(PC0 + i, 0)  # NOPs after the program: the decoder's look-ahead must not fork over every opcode
        # internal memory is the last 256 bytes of the backing store: seed it there (write_byte would run the IMR/ISR
        # bit-watch bookkeeping against the arbitrary previous contents, one fork per bit)
        for off, val in ((0xEC, 0), (0xFB, imr), (0xFC, isr)):  # BP = 0: (n) addresses the named register
            ext[0xFFF00 + off] = val
        for i, b in enumerate((0x00, 0x90, 0x0B)):
            rom[0x3FFFA + i] = b  # interrupt vector 0x0B9000 (fixed: the machine keys trace tables by PC, which a symbolic PC would enumerate)
        for i in range(12):
            emu.memory.write_byte(0xB9000 + i, 0)  # the handler starts with NOPs
        if prog == "reti":
            # the frame RETI pops: IMR and F bytes stay arbitrary, the return address is fixed (0x0B8100, NOPs there)
            for i, b in enumerate((0x00, 0x81, 0x0B)):
                emu.memory.write_byte(0xBB002 + i, b)
            for i in range(12):
                emu.memory.write_byte(0xB8100 + i, 0)
        st0 = [emu.memory.read_byte(0xBB000 - 5 + i) for i in range(10)]
        if prog == "reti":
            eng.assume((imr & 0x7E) == 0)
            eng.assume((isr & 0xFE) == 0)
            eng.assume((st0[5] & 0x7E) == 0)
        vec0 = [emu.memory.read_byte(0xFFFFA + i) for i in range(3)]
        regs = emu.cpu.regs
        regs.set(RegisterName.PC, PC0)
        regs.set(RegisterName.S, 0xBB000)
        regs.set(RegisterName.F, SymInt.var("F", 8))
        emu._irq_pending = SymInt.var("pend", 1) != 0
        emu._in_interrupt = SymInt.var("inint", 1) != 0
        emu._key_irq_latched = SymInt.var("latch", 1) != 0
        emu.cpu.state.halted = power != "running"
        emu._timer_enabled = bool(timers)
        mt = {}
        if timers:
            sch = emu._scheduler
            for nm in ("mti_period", "sti_period", "next_mti", "next_sti"):
                mt[nm] = SymInt.var(nm, 8)
                setattr(sch, nm, mt[nm])
            core.engine().assume(mt["mti_period"] == 3)
            core.engine().assume(mt["sti_period"] == 5)
            core.engine().assume((imr & 0x7C) == 0)
            core.engine().assume((isr & 0xFC) == 0)
            core.engine().assume(SymInt.var("latch", 1) == 0)
            sch.enabled = True
        n0 = emu.instruction_count
        tot0 = int(emu.irq_counts.get("total", 0))
        ok = emu.press_key("KEY_ON") if prog == "press_on" else emu.step()
        post = {"ok": ok, "pc": regs.get(RegisterName.PC), "s": regs.get(RegisterName.S), "f": regs.get(RegisterName.F), "imr": emu.memory.read_byte(IM + 0xFB), "isr": emu.memory.read_byte(IM + 0xFC),
                "pend": emu._irq_pending, "inint": emu._in_interrupt, "halted": emu.cpu.state.halted, "icount": emu.instruction_count - n0,
                "total": emu.irq_counts.get("total", 0) - tot0, "mem": [emu.memory.read_byte(0xBB000 - 5 + i) for i in range(10)]}
        if timers:
            post["next_mti"], post["next_sti"] = emu._scheduler.next_mti, emu._scheduler.next_sti
        return {"post": post, "st0": st0, "vec0": vec0}

    try:
        paths, stats = explore(fn, max_paths=20000, deadline_s=600 if tier == "quick" else 1800)
    except core.PathLimit as e:
        res["inconclusive"].append(str(e))
        return res
    res["paths"] = len(paths)
    res["solver_time"] += stats.solver_time
    tt = core.term_of

    def tb(x):
        if isinstance(x, core.SymBool):
            return z3.If(x.t, bv(1, 1), bv(0, 1))
        if isinstance(x, bool):
            return bv(1 if x else 0, 1)
        return z3.Extract(0, 0, tt(x, 8))

    for p in paths:
        if p.status != "ok":
            if p.status == "inconclusive":
                res["inconclusive"].append(p.detail[:100])
            else:
                res["cex"].append({"key": f"{key}|raises|{type(p.exc).__name__}", "summary": repr(p.exc)[:200], "payload": None})
            continue
        v = p.value
        po = v["post"]
        O = {"ok": z3.ZeroExt(31, tb(po["ok"])), "pc": tt(po["pc"], 20), "s": tt(po["s"], 20), "f": tt(po["f"], 8), "imr": tt(po["imr"], 8), "isr": tt(po["isr"], 8),
             "pend": tb(po["pend"]), "inint": tb(po["inint"]), "halted": tb(po["halted"]), "off": bv(0, 1), "icount": tt(po["icount"], 32), "total": tt(po["total"], 32),
             "mem": [tt(x, 8) for x in po["mem"]], "next_mti": tt(po.get("next_mti", 0), 8), "next_sti": tt(po.get("next_sti", 0), 8)}
        vecb = [tt(x, 8) for x in v["vec0"]]
        V = {"imr": B("imr", 8), "isr": B("isr", 8), "F": B("F", 8), "imm": B("imm", 8), "pend": B("pend", 1), "inint": B("inint", 1), "latch": B("latch", 1), "S": S,
             "needs_pending_flag": True, "st": [tt(x, 8) for x in v["st0"]], "vec": z3.Extract(19, 0, z3.Concat(vecb[2], vecb[1], vecb[0])), "mt": {k: B(k, 8) for k in ("mti_period", "sti_period", "next_mti", "next_sti")}}
        for name, neg in irq_obligations(prog, power, timers, V, O):
            res["obligations"] += 1
            r_, m_, dt = X.solve(list(p.constraints), [neg])
            res["solver_time"] += dt
            if r_ == "unsat":
                res["discharged"] += 1
                if len(res["samples"]) < 1:
                    res["samples"].append({"case": key, "obligation": name, "negated_post_head": neg.sexpr()[:140]})
            elif r_ == "sat":
                model = {str(d): m_[d].as_long() for d in m_.decls() if hasattr(m_[d], "as_long")}
                ev = lambda t: m_.eval(t, model_completion=True).as_long()  # noqa: E731
                payload = {"property": "C12", "kind": "irq", "rust": False, "key": f"{key}|{name}", "prog": prog, "power": power, "timers": timers, "model": model, "obligation": name,
                           "st": [ev(x) for x in V["st"]], "vec": ev(V["vec"])}
                res["cex"].append({"key": f"{key}|{name}", "summary": f"{key}: {name} imr={model.get('imr', 0):#x} isr={model.get('isr', 0):#x} pend={model.get('pend', 0)} inint={model.get('inint', 0)} latch={model.get('latch', 0)}", "payload": payload})
            else:
                res["unknown"] += 1
    return res


def cases(tier):
    out = []
    for prog in PROGRAMS:
        out.append((prog, "running", False))
    for power in ("halted", "off"):
        out.append(("nop", power, False))
    out.append(("nop", "off", True))
    if tier == "thorough":
        out += [("nop", "halted", True), ("nop", "running", True), ("reti", "running", True), ("halt", "running", True), ("wr_imr", "running", True)]
    return out


def main(tier):
    t0 = time.time()
    X.setup()
    rep = common.Report("C12")
    from engines.rsym import build

    build.ensure_built()
    build.image()
    cs = cases(tier)
    rs_cs = [c for c in cs if not (tier == "quick" and c[0] == "off")]  # the OFF program repeats the HALT program's paths: thorough only
    py_cs = [c for c in cs if c[1] != "off"] + ([("nop", "halted", True), ("nop", "running", True)] if tier == "quick" else [])  # no separate powered-off state in Python
    py_cs += [("press_on", "running", False), ("press_on", "halted", False)]  # event step: the ON key outside any instruction
    results = common.pool_map(run_rust_case, [(tier, c) for c in rs_cs]) + common.pool_map(run_python_case, [(tier, c) for c in py_cs])
    tot = {k: 0 for k in ("paths", "obligations", "discharged", "unknown")}
    solver_time = 0.0
    samples, inconcl, cex = [], [], {}
    for r in results:
        if "fatal" in r:
            rep.harness_errors.append(f"{r['item']}: {r['fatal']}\n{r.get('tb', '')}")
            continue
        for k in tot:
            tot[k] += r[k]
        solver_time += r["solver_time"]
        samples += r["samples"][:1]
        inconcl += [f"{r['key']}: {x}" for x in r["inconclusive"]]
        for c in r["cex"]:
            cex.setdefault(c["key"], c)
    for k, c in sorted(cex.items()):
        if c["payload"] is None:
            rep.harness_errors.append(f"{k}: {c['summary']}")
        else:
            rep.counterexample(k, c["payload"], c["summary"])
    if tot["obligations"] < 1000:
        rep.harness_errors.append(f"vacuity guard: only {tot['obligations']} obligations")
    if tot["unknown"] or inconcl:
        rep.harness_errors.append(f"inconclusive: {tot['unknown']} {inconcl[:3]}")
    code = rep.finish()
    wall = time.time() - t0
    coverage = {
        "obligations": tot["obligations"], "discharged": tot["discharged"], "evaluations": tot["paths"], "distinct_nontrivial": len(rs_cs) + len(py_cs),
        "rule": "one CoreRuntime::step per (program at PC, power state, timers on/off) from an arbitrary interrupt-controller state",
        "samples": samples[:8], "checker_cmd": "./check C12 --tier " + tier, "trusted_base": ["z3 5.1.0", "engines/rsym", "irq_spec in checks/irq_check.py"],
        "explanation": "Step relations decided by z3 for all IMR/ISR values, pending/in-interrupt/key-latch flags, F, the bytes around S, the vector and written values: an interrupt is taken only with master enable and an unmasked pending source and never while powered off; taking pushes exactly IMR, F and the resume PC, clears only the master enable, continues at the vector; an unmasked pending request is taken in the very next step; without delivery nothing is pushed; a halted or powered-off CPU executes nothing and leaves that state exactly when a status bit is pending; a powered-off CPU does not advance the timers; RETI restores IMR, F, PC and S from the frame.",
        "solver_time_s": round(solver_time, 2),
        "functions_encoded": ["Python: pce500.emulator.PCE500Emulator.__init__/step/_set_isr_bits/_tick_timers/_scan_keyboard_per_instruction, sc62015 Emulator.execute_instruction (NOP, RETI, HALT, OFF, MV (n),imm), PCE500Memory",
                              "Rust (LLVM IR): sc62015_core::CoreRuntime::new/step/deliver_pending_irq/arm_pending_irq_from_isr/refresh_key_irq_latch/push_stack, TimerContext::tick_timers_with_keyboard, LlamaExecutor::execute (NOP, RETI, HALT, OFF, MV (n),imm), MemoryImage load/store, the IMR/ISR bit-watch hook"],
        "bounds": {"history": "1 step from an arbitrary controller state (induction over runs); the state is constrained only by what the harness can set through public fields",
                   "programs": list(PROGRAMS), "stack_pointer": "fixed at 0xBB000 (contents symbolic)", "timers": "periods and targets 8-bit when on",
                   "bits": "IMR bits 4-6 and ISR bits 4-7 clear; the register-writing programs and RETI use the master enable and the MTI source only", "python_vector": "fixed at 0x0B9000 (handler = NOPs), RETI return address fixed at 0x0B8100",
                   "outside": "keyboard idle (no key held, empty FIFO); ON-key level low; multi-step interleavings beyond the step relation"},
    }
    assumptions = ["external memory arbitrary (symbolic 1 MiB array); internal memory zero except IMR/ISR", "kb_irq_enabled = true (default)", "perfetto tracer absent"]
    common.write_evidence("C12", tier, "other", coverage, assumptions, wall, len(rep.violations))
    print(f"C12 {tier}: cases={len(rs_cs) + len(py_cs)} paths={tot['paths']} obligations={tot['obligations']} discharged={tot['discharged']} cex={len(cex)} solver={solver_time:.1f}s wall={wall:.1f}s")
    return code
