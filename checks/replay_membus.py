"""Concrete replay for C11 (Python memory bus) against a plain-Python reference of memmap_spec."""


def _cell(cfg, a):
    a24 = a & 0xFFFFFF
    if a24 >= 0x100000:
        return ("internal", (a24 - 0x100000) & 0xFF, True)
    e = a24 & 0xFFFFF
    if 0x40000 <= e <= 0x4FFFF:
        off = e - 0x40000
        if cfg["card_present"] and off < cfg["card_len"]:
            return ("card", off, cfg["card_writable"])
        return ("void", 0, False)
    if cfg["rom_len"] and e >= 0xC0000:
        off = e - 0xC0000
        if off < cfg["rom_len"]:
            return ("rom", off, False)
        return ("external", e, False)
    if cfg["ram"] and cfg["ram"][0] <= e < cfg["ram"][0] + cfg["ram"][1]:
        return ("ram", e - cfg["ram"][0], True)
    return ("external", e, True)


def replay(rec):
    from pce500.memory import PCE500Memory

    config, op = rec["config"], rec["op"]
    m = PCE500Memory()
    cfg = {"rom_len": 0, "card_present": True, "card_len": 65536, "card_writable": True, "ram": None}

    def filled(n, st):
        b = bytearray([st["default"] & 0xFF]) * n
        for k, v in st["entries"].items():
            if int(k) < n:
                b[int(k)] = v
        return b

    S = rec["stores"]
    m.external_memory = filled(1024 * 1024, S["E"])
    if config in ("rom-full", "rom-short"):
        ln = 0x40000 if config == "rom-full" else 0x1000
        m.load_rom(bytes(filled(ln, S["R"])))
        cfg["rom_len"] = ln
    if config == "card-absent":
        m.set_memory_card_present(False)
        cfg["card_present"] = False
    if config == "card-8k":
        m.load_memory_card(b"", 8192)
        cfg["card_len"] = 8192
    if config == "card-readonly":
        m.load_memory_card(b"", 65536, writable=False)
        cfg["card_writable"] = False
    m._card_data = filled(cfg["card_len"], S["C"])
    if config == "ram-overlay":
        m.add_ram(0x80000, 0x8000, "ram_expansion")
        for ov in m.overlays:
            if ov.name == "ram_expansion":
                ov.data = filled(0x8000, S["A"])
        cfg["ram"] = (0x80000, 0x8000)
    a, a2, v = rec["a"], rec["a2"], rec["v"]
    width = {"byte": 1, "word": 2, "long": 3, "bytes3": 3}[op]
    before = m.read_byte(a2)
    {"byte": m.write_byte, "word": m.write_word, "long": m.write_long}.get(op, lambda x, y: m.write_bytes(3, x, y))(a, v)
    after = m.read_byte(a2)
    want = before
    c2 = _cell(cfg, a2)
    for i in range(width):
        ci = _cell(cfg, a + i)
        if ci[:2] == c2[:2] and ci[2]:
            want = (v >> (8 * i)) & 0xFF
    print(f"config={config} op={op} a={a:#x} {_cell(cfg, a)} a2={a2:#x} {c2} v={v:#x} before={before:#x} after={after:#x} want={want:#x}")
    ob = rec["obligation"]
    if ob.startswith("multi-byte"):
        multi = {"word": m.read_word, "long": m.read_long}.get(op, lambda x: m.read_bytes(x, 3))(a2)
        comp = sum(m.read_byte(a2 + i) << (8 * i) for i in range(width))
        return multi != comp
    return after != want
