"""Concrete replay for C11 (Python memory bus) against a plain-Python reference of memmap_spec."""


def _cell(cfg, a):
    a24 = a & 0xFFFFFF
    if a24 >= 0x100000:
        return ("internal", (a24 - 0x100000) & 0xFF, True)
    e = a24 & 0xFFFFF
    if 0x40000 <= e <= 0x4FFFF:
        off = e - 0x40000
        if cfg["card_present"] and off < cfg["card_len"]:
            return ("card", off, cfg["card_writable"])
        return ("void", 0, False)
    if cfg["rom_len"] and e >= 0xC0000:
        off = e - 0xC0000
        if off < cfg["rom_len"]:
            return ("rom", off, False)
        return ("external", e, False)
    if cfg["ram"] and cfg["ram"][0] <= e < cfg["ram"][0] + cfg["ram"][1]:
        return ("ram", e - cfg["ram"][0], True)
    return ("external", e, True)


def replay(rec):
    if rec.get("rust"):
        return replay_rust(rec)
    from pce500.memory import PCE500Memory

    config, op = rec["config"], rec["op"]
    m = PCE500Memory()
    cfg = {"rom_len": 0, "card_present": True, "card_len": 65536, "card_writable": True, "ram": None}

    def filled(n, st):
        b = bytearray([st["default"] & 0xFF]) * n
        for k, v in st["entries"].items():
            if int(k) < n:
                b[int(k)] = v
        return b

    S = rec["stores"]
    m.external_memory = filled(1024 * 1024, S["E"])
    if config in ("rom-full", "rom-short"):
        ln = 0x40000 if config == "rom-full" else 0x1000
        m.load_rom(bytes(filled(ln, S["R"])))
        cfg["rom_len"] = ln
    if config == "card-absent":
        m.set_memory_card_present(False)
        cfg["card_present"] = False
    if config == "card-8k":
        m.load_memory_card(b"", 8192)
        cfg["card_len"] = 8192
    if config == "card-readonly":
        m.load_memory_card(b"", 65536, writable=False)
        cfg["card_writable"] = False
    m._card_data = filled(cfg["card_len"], S["C"])
    if config == "ram-overlay":
        m.add_ram(0x80000, 0x8000, "ram_expansion")
        for ov in m.overlays:
            if ov.name == "ram_expansion":
                ov.data = filled(0x8000, S["A"])
        cfg["ram"] = (0x80000, 0x8000)
    a, a2, v = rec["a"], rec["a2"], rec["v"]
    width = {"byte": 1, "word": 2, "long": 3, "bytes3": 3}[op]
    before = m.read_byte(a2)
    {"byte": m.write_byte, "word": m.write_word, "long": m.write_long}.get(op, lambda x, y: m.write_bytes(3, x, y))(a, v)
    after = m.read_byte(a2)
    want = before
    c2 = _cell(cfg, a2)
    for i in range(width):
        ci = _cell(cfg, a + i)
        if ci[:2] == c2[:2] and ci[2]:
            want = (v >> (8 * i)) & 0xFF
    print(f"config={config} op={op} a={a:#x} {_cell(cfg, a)} a2={a2:#x} {c2} v={v:#x} before={before:#x} after={after:#x} want={want:#x}")
    ob = rec["obligation"]
    if ob.startswith("multi-byte"):
        multi = {"word": m.read_word, "long": m.read_long}.get(op, lambda x: m.read_bytes(x, 3))(a2)
        comp = sum(m.read_byte(a2 + i) << (8 * i) for i in range(width))
        return multi != comp
    return after != want


def _rs_cell(config, a):
    """Plain-Python twin of membus_check.rs_cell (Rust MemoryImage cell map)."""
    a24 = a & 0xFFFFFF
    if 0x100000 <= a24 < 0x100100:
        return ("imem", a24 - 0x100000, True)
    if config == "pce500-card8k" and 0x40000 <= a24 < 0x42000:
        return ("card", a24 - 0x40000, True)
    if config == "pce500-card-absent" and 0x40000 <= a24 <= 0x4FFFF:
        return ("void", a24 - 0x40000, False)
    if config == "ram-overlay" and 0x80000 <= a24 < 0x88000:
        return ("ram", a24 - 0x80000, True)
    if config == "rom-overlay" and 0xC0000 <= a24 < 0xC1000:
        return ("rom", a24 - 0xC0000, False)
    phys = a24
    if config == "pce500-mirror" and 0x80000 <= a24 <= 0xBFFFF:
        phys = 0xB8000 + (a24 & 0x7FFF)
    e = phys & 0xFFFFF
    wr = True
    if config.startswith("pce500"):
        wr = not (e <= 0x3FFFF or 0xC0000 <= e <= 0xFFFFF)
    return ("ext", e, wr)


def replay_rust(rec):
    from engines.rsym import build
    from checks.membus_check import RS_CONFIGS

    config, op, a, a2, v = rec["config"], rec["op"], rec["a"], rec["a2"], rec["v"]
    S = rec["stores"]
    mode, width = (1, {"load-word": 2, "load-long": 3}[op]) if op.startswith("load-") else (0, {"byte": 1, "word": 2, "long": 3}[op])

    def init(kind, idx):
        if kind == "void":
            return 0
        st = S[kind]
        return st["entries"].get(str(idx), st["default"]) & 0xFF

    ins = {500: RS_CONFIGS[config], 501: a, 502: 8 * width, 503: v, 504: a2, 509: 1, 510: mode}
    for i in range(256):
        ins[2000 + i] = init("imem", i)
    # only the cells the accesses can touch need their initial contents
    touched = set()
    for base in (a, a2):
        for i in range(3):
            touched.add(_rs_cell(config, base + i)[:2])
    # external cells: those of the spec's map plus every cell a base-address-resolved access could reach, plus the model's own entries
    ext_idx = {idx for k, idx in touched if k == "ext"} | {int(k) for k in S["ext"]["entries"] if int(k) < 0x100000}
    for base in (a, a2):
        a24 = base & 0xFFFFFF
        for i in range(3):
            ext_idx |= {(a24 + i) & 0xFFFFF, ((a24 & 0xFFFFF) + i) & 0xFFFFF, 0xB8000 + ((a24 + i) & 0x7FFF), (0xB8000 + (a24 & 0x7FFF) + i) & 0xFFFFF}
    ext = [(idx, init("ext", idx)) for idx in sorted(ext_idx)]
    ins[508] = len(ext)
    for j, (idx, b) in enumerate(ext):
        ins[3000 + 2 * j], ins[3001 + 2 * j] = idx, b
    ram = [(idx, init("ram", idx)) for k, idx in touched if k == "ram"]
    ins[507] = len(ram)
    for j, (idx, b) in enumerate(ram):
        ins[4000 + 2 * j], ins[4001 + 2 * j] = idx, b
    mem = {}
    for k, idx in touched:
        if k == "card":
            mem[0x03000000 + idx] = init("card", idx)
        if k == "rom":
            mem[0x06000000 + idx] = init("rom", idx)
    r = build.run_replay("harness_mem", ins, mem, default=0)
    out = r["out"]
    cells = {}

    def rd(addr):
        k, idx, _w = _rs_cell(config, addr)
        return cells.get((k, idx), init(k, idx))

    mism = []
    if mode == 0:
        before = rd(a2)
        for i in range(width):
            k, idx, w = _rs_cell(config, a + i)
            if w:
                cells[(k, idx)] = (v >> (8 * i)) & 0xFF
        after = rd(a2)
        if out.get(10) != before:
            mism.append(f"before {out.get(10)} want {before}")
        if out.get(20) != after:
            mism.append(f"after {out.get(20)} want {after}")
    else:
        want = sum(rd(a2 + i) << (8 * i) for i in range(width))
        parts = [out.get(40 + i) for i in range(width)]
        if out.get(30) != want or parts != [rd(a2 + i) for i in range(width)]:
            mism.append(f"multi {out.get(30)} parts {parts} want {want:#x}")
    print("rust membus", config, op, hex(a), hex(a2), hex(v), "mismatches", mism, "rc", r["rc"])
    return bool(mism)
