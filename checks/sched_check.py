"""C18 (first half): the virtual-time task scheduler of the Rust runtime wakes tasks exactly on time and in order.

``AsyncDriver`` (spawn / run_for) with real ``async`` tasks built from ``sleep_cycles`` and ``emit_event`` is executed from the
crate's LLVM IR (rsym): sleep durations and run_for budgets are z3 variables (6-bit, 0 included), task shapes (how many
tasks, how many sleeps each) and the number of run_for calls are the finite case split.  The same task set runs twice
under two different budget sequences.  z3 decides the sched_spec obligations below on every path.
"""
from __future__ import annotations

import sys
import time

import z3

from . import common
from . import isa_exec as X
from engines.pysym import core
from engines.pysym.core import explore

BITS = 6
SHAPES_QUICK = [((1,), 3, 2), ((2,), 3, 2), ((1, 1), 3, 2), ((2, 1), 3, 2), ((2, 2), 3, 2)]
SHAPES_THOROUGH = SHAPES_QUICK + [((3,), 4, 3), ((1, 1, 1), 3, 2)]


def bv(v, n):
    return z3.BitVecVal(v, n)


def sched_obligations(shape, nba, nbb, bud, due, out, out64, T, notes):
    """sched_spec as negated obligations over one path's outputs (terms or concrete values)."""
    checks = []
    logs = {}
    for r in (0, 1):
        nb = (nba, nbb)[r]
        # the wake log of this run, in wake order: on one path the sequence of (task, step) is concrete, the cycles are terms
        log = []
        k = 0
        while 1000 * (r + 1) + k in out64:
            v = out64[1000 * (r + 1) + k]
            vt = T(v, 64)
            ident = z3.simplify(z3.Extract(63, 32, vt))
            if not z3.is_bv_value(ident):
                notes.append("wake identity is not concrete on a path")
                break
            idv = ident.as_long()
            log.append(((idv >> 4, idv & 15), z3.Extract(31, 0, vt)))
            k += 1
        logs[r] = log
        seen = set()
        for (tid, cyc) in log:
            # W: resumed exactly at the cycle asked for (never earlier, never later)
            checks.append((f"run{'AB'[r]}:task{tid[0]}.sleep{tid[1]}:woken-exactly-on-time", cyc != due.get(tid, bv(0xFFFFFFFF, 32))))
            checks.append((f"run{'AB'[r]}:task{tid[0]}.sleep{tid[1]}:woken-once-and-in-program-order", z3.BoolVal(tid in seen or (tid[1] > 0 and (tid[0], tid[1] - 1) not in seen))))
            seen.add(tid)
        for a_, b_ in zip(log, log[1:]):
            checks.append((f"run{'AB'[r]}:virtual-time-never-moves-backwards", z3.ULT(b_[1], a_[1])))
        # per run_for call
        clock = bv(0, 32)
        delivered = []
        for bi in range(nb):
            ev, cyc, clk, nw = T(out[100 * (r + 1) + 3 * bi], 32), T(out[100 * (r + 1) + 3 * bi + 1], 32), T(out[100 * (r + 1) + 3 * bi + 2], 32), out[150 * (r + 1) + bi]
            budget = z3.ZeroExt(32 - BITS, bud[r][bi])
            nw = nw if isinstance(nw, int) else z3.simplify(T(nw, 32)).as_long()
            evs = z3.simplify(ev)
            checks.append((f"run{'AB'[r]}:call{bi}:clock-monotone-and-accounted", z3.Or(z3.ULT(clk, clock), cyc != clk - clock)))
            checks.append((f"run{'AB'[r]}:call{bi}:clock-stays-within-budget", z3.And(budget != 0, z3.UGE(clk, clock + budget), clk != clock)))
            if z3.is_bv_value(evs) and evs.as_long() != 0xFFFF:
                delivered.append(evs.as_long())
            elif not z3.is_bv_value(evs):
                notes.append("event code is not concrete on a path")
            else:
                # MaxCycles: nothing that is due before the target is left unresumed
                done = {tid for tid, _c in log[:nw]}
                for tid, dterm in due.items():
                    if tid not in done and (tid[1] == 0 or (tid[0], tid[1] - 1) in done):
                        checks.append((f"run{'AB'[r]}:call{bi}:task{tid[0]}.sleep{tid[1]}:due-task-not-left-sleeping", z3.ULT(dterm, clock + budget)))
            clock = clk
        # E: events are returned exactly once, in emission order (one per resumption)
        want = [t_ * 16 + i_ for (t_, i_), _c in log][:len(delivered)]
        checks.append((f"run{'AB'[r]}:events-delivered-once-in-emission-order", z3.BoolVal(delivered != want)))
    # O: the common prefix of the two wake logs is identical (order and cycles do not depend on the budget partition)
    for (ta, ca), (tb, cb) in zip(logs.get(0, []), logs.get(1, [])):
        checks.append(("wake-order-independent-of-budget-partition", z3.BoolVal(ta != tb)))
        checks.append(("wake-cycles-independent-of-budget-partition", ca != cb))
    return checks


def run_case(item):
    tier, (shape, nba, nbb) = item
    X.setup()
    from engines.rsym import build, interp

    img, _b = build.image()
    key = f"tasks={'+'.join(map(str, shape))}:budgets={nba}/{nbb}"
    res = {"key": key, "paths": 0, "obligations": 0, "discharged": 0, "unknown": 0, "cex": [], "solver_time": 0.0, "samples": [], "inconclusive": []}
    B = z3.BitVec
    d = {(t, i): B(f"d{t}_{i}", BITS) for t, n in enumerate(shape) for i in range(n)}
    bud = {0: [B(f"ba{i}", BITS) for i in range(nba)], 1: [B(f"bb{i}", BITS) for i in range(nbb)]}
    ins = {800: len(shape), 820: nba, 821: nbb}
    for t, n in enumerate(shape):
        ins[801 + t] = n
    for (t, i), v in d.items():
        ins[810 + 4 * t + i] = z3.ZeroExt(32 - BITS, v)
    for r in (0, 1):
        for i, v in enumerate(bud[r]):
            ins[(830, 840)[r] + i] = z3.ZeroExt(32 - BITS, v)
    due = {}
    for t, n in enumerate(shape):
        acc = bv(0, 32)
        for i in range(n):
            acc = acc + z3.ZeroExt(32 - BITS, d[(t, i)])
            due[(t, i)] = acc

    def fn():
        out, out64 = {}, {}
        hooks = {"verif_in": lambda m, i: ins.get(i, 0), "verif_out": lambda m, i, v: out.__setitem__(i, v), "verif_load": lambda m, a: 0, "verif_store": lambda m, a, v: None,
                 "verif_in64": lambda m, i: 0, "verif_out64": lambda m, i, v: out64.__setitem__(i, v)}
        m = interp.Machine(img, hooks)
        m.STEP_LIMIT = 20_000_000
        m.run(img.mod.functions["harness_async"], [])
        return out, out64, m.steps

    try:
        paths, stats = explore(fn, max_paths=20000, deadline_s=900 if tier == "quick" else 2400, timeout_ms=10000)
    except core.PathLimit as e:
        res["inconclusive"].append(str(e))
        return res
    res["paths"] = len(paths)
    res["solver_time"] += stats.solver_time
    T = interp.to_term
    for p in paths:
        if p.status != "ok":
            if p.status == "inconclusive":
                res["inconclusive"].append(p.detail[:100])
            else:
                res["cex"].append({"key": f"{key}|raises|{type(p.exc).__name__}", "summary": repr(p.exc)[:200], "payload": None})
            continue
        out, out64, steps = p.value
        checks = sched_obligations(shape, nba, nbb, bud, due, out, out64, T, res["inconclusive"])
        for name, neg in checks:
            res["obligations"] += 1
            neg = z3.simplify(neg)
            if z3.is_false(neg):
                res["discharged"] += 1
                continue
            r_, m_, dt = X.solve(list(p.constraints), [neg])
            res["solver_time"] += dt
            if r_ == "unsat":
                res["discharged"] += 1
                if len(res["samples"]) < 1:
                    res["samples"].append({"case": key, "obligation": name, "rust_ir_steps": steps, "negated_post_head": neg.sexpr()[:140]})
            elif r_ == "sat":
                inputs = {str(i_): (v_ if type(v_) is int else m_.eval(v_, model_completion=True).as_long()) for i_, v_ in ins.items()}
                payload = {"property": "C18", "kind": "sched", "key": f"{key}|{name}", "shape": list(shape), "inputs": inputs, "obligation": name}
                generic = name.split(":")[-1]
                res["cex"].append({"key": f"{key}|{generic}", "summary": f"{key}: {name} inputs={ {k: v for k, v in inputs.items() if int(k) >= 810} }", "payload": payload})
            else:
                res["unknown"] += 1
    return res


def main(tier):
    t0 = time.time()
    X.setup()
    rep = common.Report("C18")
    from engines.rsym import build

    build.ensure_built()
    build.image()
    shapes = SHAPES_QUICK if tier == "quick" else SHAPES_THOROUGH
    results = common.pool_map(run_case, [(tier, s) for s in shapes])
    tot = {k: 0 for k in ("paths", "obligations", "discharged", "unknown")}
    solver_time = 0.0
    samples, inconcl, cex = [], [], {}
    for r in results:
        if "fatal" in r:
            rep.harness_errors.append(f"{r['item']}: {r['fatal']}\n{r.get('tb', '')}")
            continue
        for k in tot:
            tot[k] += r[k]
        solver_time += r["solver_time"]
        samples += r["samples"][:1]
        inconcl += [f"{r['key']}: {x}" for x in r["inconclusive"]]
        for c in r["cex"]:
            cex.setdefault(c["key"], c)
    for k, c in sorted(cex.items()):
        if c["payload"] is None:
            rep.harness_errors.append(f"{k}: {c['summary']}")
        else:
            rep.counterexample(k, c["payload"], c["summary"])
    if tot["obligations"] < 500:
        rep.harness_errors.append(f"vacuity guard: only {tot['obligations']} obligations")
    if tot["unknown"] or inconcl:
        rep.harness_errors.append(f"inconclusive: {tot['unknown']} {inconcl[:3]}")
    code = rep.finish()
    wall = time.time() - t0
    coverage = {
        "obligations": tot["obligations"], "discharged": tot["discharged"], "evaluations": tot["paths"], "distinct_nontrivial": len(shapes),
        "rule": "one case per (sleeps per task, number of run_for calls in run A / run B); every sleep duration and every budget symbolic",
        "samples": samples[:8], "checker_cmd": "./check C18 --tier " + tier, "trusted_base": ["z3 5.1.0", "engines/rsym", "sched_spec in checks/sched_check.py"],
        "explanation": "z3 decides on every path of the real AsyncDriver (LLVM IR) that each task is resumed exactly at the sum of its sleeps, once and in program order; virtual time never moves backwards; each run_for accounts its cycles, stays within its budget and leaves no due task sleeping when it reports MaxCycles; emitted events come back exactly once in emission order; and the wake order and cycles of two runs of the same tasks under different budget sequences agree on their common prefix.",
        "solver_time_s": round(solver_time, 2),
        "functions_encoded": ["Rust (LLVM IR): sc62015_core::async_driver::AsyncDriver::new/spawn/run_for, CycleSleep::poll, sleep_cycles, emit_event, current_cycle, take_pending_event, the compiler-generated state machines of the harness's async blocks, BTreeMap<u64, Vec<Pin<Box<dyn Future>>>>, VecDeque"],
        "bounds": {"tasks": "1..3 tasks, 1..3 sleeps each (shapes listed in SHAPES_*)", "durations": f"{BITS}-bit sleeps and budgets, 0 included", "calls": "2..5 run_for calls per run, two runs per case",
                   "outside": "the second half of C18 (driving the CPU through the scheduler == the synchronous step loop: async_cpu.rs / async_runtime.rs / async_devices.rs) is not encoded; block_on is not exercised; saturating arithmetic near u64::MAX"},
    }
    assumptions = ["tasks are sequences of sleep_cycles(d).await; emit_event(User(id)) (one event per resumption)", "single thread (thread-locals = globals)"]
    common.write_evidence("C18", tier, "other", coverage, assumptions, wall, len(rep.violations))
    print(f"C18 {tier}: cases={len(shapes)} paths={tot['paths']} obligations={tot['obligations']} discharged={tot['discharged']} cex={len(cex)} solver={solver_time:.1f}s wall={wall:.1f}s")
    return code
