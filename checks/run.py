"""Dispatcher: ./check <id> --tier quick|thorough | --replay <path>"""
from __future__ import annotations

import argparse
import os
import sys

sys.path.insert(0, os.path.dirname(os.path.dirname(os.path.abspath(__file__))))


def main():
    ap = argparse.ArgumentParser()
    ap.add_argument("prop")
    ap.add_argument("--tier", default=os.environ.get("VERIF_TIER", "quick"), choices=["quick", "thorough"])
    ap.add_argument("--replay")
    a = ap.parse_args()
    if a.replay:
        from . import common

        ok, out = common.run_replay(a.replay)
        print(out)
        if ok:
            print(f"VIOLATION property={a.prop} replay={a.replay}")
            return 1
        return 0 if ok is False else 3
    from .registry import RUNNERS

    if a.prop not in RUNNERS:
        print(f"HARNESS: no check registered for {a.prop}")
        return 3
    modname, fn, args = RUNNERS[a.prop]
    try:
        mod = __import__(f"checks.{modname}", fromlist=[fn])
        return getattr(mod, fn)(*args, a.tier)
    except SystemExit:
        raise
    except BaseException as e:  # noqa: BLE001 - a crash of the machinery is a harness error (exit 3), never a verdict
        import traceback

        traceback.print_exc()
        print(f"HARNESS: {a.prop} check crashed: {type(e).__name__}: {e}")
        return 3


if __name__ == "__main__":
    sys.exit(main())
