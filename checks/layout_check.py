"""C10: assembling a program lays out code, data and labels consistently.

Program *skeletons* (which statements, which labels, which references - a finite structural choice) are enumerated; inside a
skeleton every numeral (.ORG targets, immediates, data values) is a z3 variable, written into the source as a magic numeral
(see asm_check.py).  The real parser, transformer and two-pass Assembler run on the text; z3 decides the obligations of
checks/layout_core.py for all numeral values at once (in particular for all placements relative to the 64 KiB page edges).
"""
from __future__ import annotations

import itertools
import time

import z3

from . import common
from . import isa_exec as X
from . import layout_core as LC
from engines.pysym import core
from engines.pysym.core import SymInt, SymBool, explore

MAGIC_BASE = 0x7E570000


class _Recorder:
    last = None

    def __init__(self):
        self.chunks = []
        _Recorder.last = self

    def add_binary(self, data, address=0, overwrite=False):
        self.chunks.append((address, list(data)))


class _FakeBincopy:
    BinFile = _Recorder


class _K:
    true = True
    false = False

    @staticmethod
    def eq(a, b):
        return a == b

    @staticmethod
    def ne(a, b):
        return a != b

    @staticmethod
    def and_(conds):
        ts = []
        for c in conds:
            if type(c) is SymBool:
                ts.append(c.t)
            elif not c:
                return False
        if not ts:
            return True
        return SymBool(z3.And(*ts))


def _mk_assembler_factory():
    from sc62015.pysc62015 import sc_asm

    sc_asm.bincopy = _FakeBincopy

    class RecAsm(sc_asm.Assembler):
        def __init__(self):
            super().__init__()
            self.rec1, self.rec2 = [], []

        def _get_statement_size(self, st, ln):
            r = super()._get_statement_size(st, ln)
            self.rec1.append((ln, r))
            return r

        def _encode_statement(self, st, ln):
            r = super()._encode_statement(st, ln)
            self.rec2.append((ln, list(r)))
            return r

        def assemble(self, text):
            self.rec1, self.rec2 = [], []
            return super().assemble(text)

        def last_binfile(self):
            return _Recorder.last

    return RecAsm, sc_asm


def sig(skel):
    return " ; ".join((f"{l}: " if l else "") + k + (f"->{o}" if o else "") for l, k, o in skel)


def run_skeleton(item):
    tier, skel = item
    X.setup()
    t0 = time.time()
    key = sig(skel)
    res = {"key": key, "paths": 0, "obligations": 0, "discharged": 0, "unknown": 0, "rejected_paths": 0, "inconclusive": [], "cex": [], "solver_time": 0.0, "samples": []}
    RecAsm, sc_asm = _mk_assembler_factory()
    cache_before = {k: [t["opcode"] for t in v] for k, v in sc_asm.REVERSE_OPCODES_CACHE.items()} if sc_asm.REVERSE_OPCODES_CACHE else None

    def fn():
        eng = core.engine()
        varmap = {}

        def numeral(name, bits, value=None):
            if value is None:
                value = SymInt.var(name, bits)
                varmap[name] = bits
                if name.startswith("n") and bits == 20 and name.endswith("_0") and skel[int(name[1:].split("_")[0])][1] == "org":
                    eng.assume((value + 0x40 <= 0x100000).t)
            if isinstance(value, int):
                return "0x%X" % value, value
            return eng.new_magic(value), value

        def alone(addr_text, text):
            a1 = RecAsm()
            try:
                ch = a1.assemble(f".ORG {addr_text}\n{text}\n").chunks
            except Exception as e:  # noqa: BLE001
                if type(e).__name__ != "AssemblerError":
                    raise
                raise LC.AsmFailure(str(e))
            if len(ch) != 1:
                raise LC.AsmFailure("layout")
            return ch[0][1]

        src, obl, err = LC.evaluate(skel, numeral, RecAsm, _K, alone)
        return {"src": src, "obl": obl, "err": None if err is None else str(err)[:120], "vars": dict(varmap)}

    try:
        paths, stats = explore(fn, max_paths=4000, timeout_ms=20000)
    except core.PathLimit as e:
        res["inconclusive"].append(str(e))
        return res
    res["paths"] = len(paths)
    res["solver_time"] += stats.solver_time
    for p in paths:
        if p.status == "inconclusive":
            res["inconclusive"].append(p.detail[:100])
            continue
        if p.status == "exception":
            res["cex"].append({"key": f"harness-exception|{type(p.exc).__name__}", "summary": f"{key}: {p.exc!r}"[:300], "payload": None})
            continue
        v = p.value
        if v["err"]:
            res["rejected_paths"] += 1
        for name, cond in v["obl"]:
            res["obligations"] += 1
            if cond is True:
                res["discharged"] += 1
                continue
            neg = z3.BoolVal(True) if cond is False else z3.Not(cond.t)
            r, m, dt = X.solve(p.constraints, [neg])
            res["solver_time"] += dt
            if r == "unsat":
                res["discharged"] += 1
                if not res["samples"]:
                    res["samples"].append({"skeleton": key, "obligation": name, "negated_post_head": neg.sexpr()[:120]})
            elif r == "sat":
                vals = {n: m.eval(z3.BitVec(n, b), model_completion=True).as_long() for n, b in v["vars"].items()}
                ckey = f"{name}|{key}"
                payload = {"property": "C10", "kind": "layout", "key": ckey, "skeleton": [list(s) for s in skel], "numerals": vals, "obligation": name, "source": v["src"]}
                res["cex"].append({"key": ckey, "summary": f"{name} numerals={vals}", "payload": payload})
                # no break: the obligations of a path are independent of each other, and a known finding must not hide a new one
            else:
                res["unknown"] += 1
    # nothing left behind in the module-level reverse-opcode cache
    after = {k: [t["opcode"] for t in vv] for k, vv in sc_asm.REVERSE_OPCODES_CACHE.items()}
    res["obligations"] += 1
    if cache_before is None or cache_before == after:
        res["discharged"] += 1
    else:
        res["cex"].append({"key": f"reverse-opcode-cache-changed|{key}", "summary": "REVERSE_OPCODES_CACHE differs after assembling", "payload":
                           {"property": "C10", "kind": "layout", "key": f"reverse-opcode-cache-changed|{key}", "skeleton": [list(s) for s in skel], "numerals": {}, "obligation": "reverse-opcode-cache-changed", "source": ""}})
    res["wall"] = time.time() - t0
    return res


FILLERS = ["nop", "mva", "mvx", "mvw", "pushu", "defb2", "defw", "defl", "defs0", "defs1", "defs3", "defm"]
REFS = ["jp", "jpz", "call", "jpf", "callf", "mvxl", "defwl", "defll"]


def skeletons(tier):
    out = []
    fl = FILLERS if tier == "thorough" else ["mva", "mvw", "defb2", "defs3", "defl", "defs0"]
    rf = REFS if tier == "thorough" else ["jp", "call", "jpf", "mvxl", "defwl"]
    for r in rf:
        for f in fl:
            out.append([("L0", f, None), (None, "nop", None), (None, r, "L0")])  # backward
            out.append([(None, r, "L0"), (None, f, None), ("L0", "nop", None)])  # forward
        for f in fl[:4]:
            out.append([(None, "org", None), ("L0", f, None), (None, "org", None), (None, r, "L0")])  # placements on any two pages
            out.append([(None, "org", None), (None, r, "L0"), (None, f, None), (None, "org", None), ("L0", "nop", None)])
            out.append([(None, "secd", None), ("L0", f, None), (None, "secc", None), (None, r, "L0")])
            out.append([(None, r, "L0"), (None, "secd", None), (None, f, None), ("L0", "defw", None)])
        out.append([("L0", "label", None), (None, "mva", None), (None, r, "L0")])
        out.append([(None, "defme", None), ("L0", "mvdn", None), (None, r, "L0")])  # a string with an escape before a label
        out.append([(None, r, "L1"), ("L0", "mvx", None), ("L1", "label", None), (None, r, "L0")])
        out.append([(None, "org", None), ("L0", "defs3", None), ("L1", "defm", None), (None, r, "L1"), (None, r, "L0")])
        out.append([(None, "secd", None), (None, "org", None), ("L0", "defl", None), (None, "secc", None), (None, "org", None), (None, r, "L0")])
    # a label used as an 8-bit displacement (label values 1..0x20: no .ORG in these skeletons)
    for f in fl[:4]:
        out.append([(None, f, None), ("L0", "mva", None), (None, "mvdl", "L0")])
        out.append([(None, "mvdl", "L0"), (None, f, None), ("L0", "nop", None)])
    out.append([(None, "defme", None), ("L0", "defm", None), (None, "defwl", "L0"), (None, "mvdl", "L0")])
    if tier == "thorough":
        # filler orders around a far reference: a deterministic stride through the 3-permutations (structure only; numerals stay symbolic)
        for f1, f2, f3 in list(itertools.permutations(FILLERS, 3))[::3]:
            out.append([(None, f1, None), ("L0", f2, None), (None, f3, None), (None, "jpf", "L0")])
        for f1, f2 in itertools.permutations(FILLERS, 2):
            out.append([(None, "org", None), (None, "call", "L0"), (None, f1, None), (None, f2, None), ("L0", "nop", None)])
    return out


def main(tier):
    t0 = time.time()
    X.setup()
    rep = common.Report("C10")
    sk = skeletons(tier)
    items = [(tier, s) for s in sk]
    results = common.pool_map(run_skeleton, items, chunksize=2)
    tot = {k: 0 for k in ("paths", "obligations", "discharged", "unknown", "rejected_paths")}
    solver_time = 0.0
    inconcl, samples, batch = [], [], []
    seen = set()
    for r in results:
        if "fatal" in r:
            rep.harness_errors.append(f"{r['item']}: {r['fatal']}\n{r.get('tb', '')}")
            continue
        for k in tot:
            tot[k] += r[k]
        solver_time += r["solver_time"]
        inconcl += [f"{r['key']}: {x}" for x in r["inconclusive"]]
        if r["samples"] and len(samples) < 8:
            samples += r["samples"]
        for c in r["cex"]:
            if c["payload"] is None:
                rep.harness_errors.append(f"{c['key']}: {c['summary']}")
            elif c["key"] not in seen:
                seen.add(c["key"])
                batch.append((c["key"], c["payload"], c["summary"]))
    rep.counterexamples(sorted(batch, key=lambda x: x[0]))
    n_incon = len(inconcl) + tot["unknown"]
    floor = 1500 if tier == "quick" else 8000
    if tot["discharged"] < floor:
        rep.harness_errors.append(f"vacuity guard: only {tot['discharged']} obligations discharged (< {floor})")
    if tot["rejected_paths"] == 0:
        rep.harness_errors.append("vacuity guard: no path on which a cross-page near reference was rejected")
    if n_incon > 0.05 * max(1, tot["obligations"]):
        rep.harness_errors.append(f"too many inconclusive: {n_incon}: {inconcl[:5]}")
    code = rep.finish()
    wall = time.time() - t0
    coverage = {
        "programs": len(items),
        "disagreements_checked": rep.nreplay,
        "obligations": tot["obligations"],
        "discharged": tot["discharged"],
        "inconclusive": n_incon,
        "evaluations": tot["paths"],
        "distinct_nontrivial": len(items),
        "rule": "one symbolic run per program skeleton (statement kinds, labels, references concrete; every numeral symbolic); each path is one page relation between references and definitions",
        "samples": samples[:8],
        "paths": tot,
        "solver_time_s": round(solver_time, 2),
        "inconclusive_details": inconcl[:20],
        "functions_encoded": [
            "sc62015.pysc62015.asm.asm_parser (lark, concrete text with magic numerals) and AsmTransformer.*",
            "sc62015.pysc62015.sc_asm.Assembler.assemble/_first_pass/_second_pass/_apply_location/_get_statement_size/_build_instruction/_encode_statement/_evaluate_operand/_normalize_near_control_flow",
            "instr.*.encode for the instructions of the skeleton alphabet",
        ],
        "bounds": {
            "skeletons": "2-6 statements over {NOP, MV A,n, MV X,lmn, MVW (BP+n),mn, PUSHU BA, JP/JPZ/CALL/JPF/CALLF/MV X with a label operand, defb/defw/defl (numerals, strings, label operands), defs 0/1/3, defm, .ORG, SECTION code/data, label-only lines}; at most 2 labels and 2 references; forward and backward references",
            "numerals": "every immediate, data value and .ORG target symbolic (8-24 bit); .ORG targets 20 bit with target+0x40 <= 0x100000",
            "outside": "bss layout rule, user-defined section names, expressions other than one numeral or one label, defs with a symbolic size, bincopy's own segment handling (replaced by a recorder), programs longer than 6 statements",
        },
        "known_findings_hit": {k: len(v) for k, v in rep.known_hits.items()},
    }
    assumptions = [
        "numerals that stand for a symbolic value are magic hexadecimal literals mapped back to their term by the rebound int() of the instrumented asm/sc_asm modules (see C09)",
        "bincopy.BinFile replaced by a recorder of (address, bytes) chunks",
        "reference layout = section base (.code 0, .data 0x80000) or the last .ORG of the section plus the pass-1 sizes of the preceding statements of that section; label on a line = address of that line",
        "a page-local JP/JPZ/CALL to a label is expected to be rejected iff label>>16 != statement address>>16",
    ]
    common.write_evidence("C10", tier, "translation_validation", coverage, assumptions, wall, len(rep.violations))
    print(f"C10 {tier}: skeletons={len(items)} paths={tot['paths']} (rejecting {tot['rejected_paths']}) obligations={tot['obligations']} discharged={tot['discharged']} inconclusive={n_incon} "
          f"cex={len(batch)} solver={solver_time:.1f}s wall={wall:.1f}s")
    return code
