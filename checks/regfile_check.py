"""C08 (Python side): register aliasing, widths, flag packing and snapshot round trip.

Inductive step: from an arbitrary register-file state satisfying the
representation invariant ``Registers.set`` maintains, one (quick) or two
(thorough) writes of arbitrary 32-bit values by name; every readable register
is then compared by z3 with specs/regfile.py.  Induction over write sequences
of any length follows because the post-state again satisfies the invariant
(asserted as an obligation).
"""
from __future__ import annotations

import sys
import time

import z3

from . import common
from . import isa_exec as X
from engines.pysym import core
from engines.pysym.core import SymInt, explore

BASE = {"BA": 16, "I": 16, "X": 20, "Y": 20, "U": 20, "S": 20, "PC": 20, "F": 8}
WRITE_NAMES = ["A", "B", "IL", "IH", "I", "BA", "X", "Y", "U", "S", "PC", "F", "FC", "FZ", "flag:C", "flag:Z", "TEMP3"]
READ_NAMES = ["A", "B", "IL", "IH", "I", "BA", "X", "Y", "U", "S", "PC", "F", "FC", "FZ", "flag:C", "flag:Z", "TEMP3", "TEMP5"]


def bv(v, n):
    return z3.BitVecVal(v, n)


def spec_write(st, name, v32):
    """regfile_spec: state dict of z3 terms -> new state after a write by name."""
    st = dict(st)
    lo8 = z3.Extract(7, 0, v32)
    if name == "A":
        st["BA"] = z3.Concat(z3.Extract(15, 8, st["BA"]), lo8)
    elif name == "B":
        st["BA"] = z3.Concat(lo8, z3.Extract(7, 0, st["BA"]))
    elif name == "IL":
        st["I"] = z3.ZeroExt(8, lo8)  # a write to IL clears IH
    elif name == "IH":
        st["I"] = z3.Concat(lo8, z3.Extract(7, 0, st["I"]))
    elif name in ("I", "BA"):
        st[name] = z3.Extract(15, 0, v32)
    elif name in ("X", "Y", "U", "S", "PC"):
        st[name] = z3.Extract(19, 0, v32)
    elif name == "F":
        st["F"] = lo8
    elif name in ("FC", "flag:C"):
        st["F"] = z3.Concat(z3.Extract(7, 1, st["F"]), z3.Extract(0, 0, v32))
    elif name in ("FZ", "flag:Z"):
        st["F"] = z3.Concat(z3.Extract(7, 2, st["F"]), z3.Extract(0, 0, v32), z3.Extract(0, 0, st["F"]))
    elif name.startswith("TEMP"):
        st[name] = z3.Extract(23, 0, v32)
    else:
        raise AssertionError(name)
    return st


def spec_read(st, name):
    if name == "A":
        return z3.ZeroExt(24, z3.Extract(7, 0, st["BA"]))
    if name == "B":
        return z3.ZeroExt(24, z3.Extract(15, 8, st["BA"]))
    if name == "IL":
        return z3.ZeroExt(24, z3.Extract(7, 0, st["I"]))
    if name == "IH":
        return z3.ZeroExt(24, z3.Extract(15, 8, st["I"]))
    if name in ("FC", "flag:C"):
        return z3.ZeroExt(31, z3.Extract(0, 0, st["F"]))
    if name in ("FZ", "flag:Z"):
        return z3.ZeroExt(31, z3.Extract(1, 1, st["F"]))
    t = st[name]
    return z3.ZeroExt(32 - t.size(), t)


def _do_write(regs, name, v):
    from sc62015.pysc62015.emulator import RegisterName

    if name.startswith("flag:"):
        regs.set_flag(name[5:], v)
    elif name in ("A", "X", "F"):
        regs.set_by_name(name, v)  # the evaluator's entry point
    else:
        regs.set(RegisterName[name], v)


def _do_read(regs, name):
    from sc62015.pysc62015.emulator import RegisterName

    if name.startswith("flag:"):
        return regs.get_flag(name[5:])
    if name in ("B", "Y", "F"):
        return regs.get_by_name(name)
    return regs.get(RegisterName[name])


def run_case(item):
    tier, writes = item
    X.setup()
    from sc62015.pysc62015.emulator import Registers, RegisterName
    from sc62015.pysc62015.stepper import CPURegistersSnapshot

    key = "write " + " then ".join(writes)
    res = {"key": key, "paths": 0, "obligations": 0, "discharged": 0, "unknown": 0, "cex": [], "solver_time": 0.0, "samples": [], "inconclusive": []}

    def fn():
        regs = Registers()
        st = {}
        for n, bits in BASE.items():
            v = SymInt.var(f"r_{n}", bits)
            regs._values[RegisterName[n]] = v
            st[n] = z3.BitVec(f"r_{n}", bits)
        for t in ("TEMP3", "TEMP5"):
            v = SymInt.var(f"r_{t}", 24)
            regs._values[RegisterName[t]] = v
            st[t] = z3.BitVec(f"r_{t}", 24)
        vals = []
        for i, w in enumerate(writes):
            v = SymInt.var(f"v{i}", 32)
            vals.append(v)
            _do_write(regs, w, v)
            st = spec_write(st, w, z3.BitVec(f"v{i}", 32))
        obs = {"reads": {}, "inv": {}, "snap": {}, "vals": vals}
        for r in READ_NAMES:
            obs["reads"][r] = (_do_read(regs, r), spec_read(st, r))
        # representation invariant still holds (induction step)
        for n, bits in list(BASE.items()) + [("TEMP3", 24), ("TEMP5", 24)]:
            obs["inv"][n] = (regs._values[RegisterName[n]], bits)
        # snapshot applied to a fresh register file reproduces every readable value
        for t in range(14):
            if t not in (3, 5):
                regs._values[RegisterName[f"TEMP{t}"]] = 0
        regs.call_sub_level = 2
        snap = CPURegistersSnapshot.from_registers(regs)
        fresh = Registers()
        snap.apply_to(fresh)
        for r in READ_NAMES:
            obs["snap"][r] = (_do_read(fresh, r), _do_read(regs, r))
        obs["snap_level"] = fresh.call_sub_level
        d = snap.to_dict()
        obs["dict_f"] = (d["f"], spec_read(st, "F"))
        return obs

    paths, stats = explore(fn, max_paths=2000)
    res["paths"] = len(paths)
    res["solver_time"] += stats.solver_time
    for p in paths:
        if p.status != "ok":
            if p.status == "inconclusive":
                res["inconclusive"].append(p.detail[:100])
            else:
                res["cex"].append({"key": f"{key}|raises|{type(p.exc).__name__}", "summary": repr(p.exc)[:160], "payload": None})
            continue
        v = p.value
        checks = []
        for r, (got, want) in v["reads"].items():
            checks.append((f"read {r}", core.term_of(got, 32) != want, want))
        for n, (val, bits) in v["inv"].items():
            t = core.term_of(val, 64)
            checks.append((f"invariant {n}", z3.Not(z3.And(t >= 0, z3.ULT(t, bv(1 << bits, 64)))), None))
        for r, (got, want) in v["snap"].items():
            checks.append((f"snapshot {r}", core.term_of(got, 32) != core.term_of(want, 32), None))
        checks.append(("snapshot dict f", core.term_of(v["dict_f"][0], 32) != v["dict_f"][1], None))
        if v["snap_level"] != 2:
            checks.append(("snapshot call_sub_level", z3.BoolVal(True), None))
        for name, neg, _w in checks:
            res["obligations"] += 1
            r, m, dt = X.solve(p.constraints, [neg], fast=True)
            res["solver_time"] += dt
            if r == "unsat":
                res["discharged"] += 1
                if not res["samples"]:
                    res["samples"].append({"case": key, "obligation": name, "negated_post_head": neg.sexpr()[:120]})
            elif r == "sat":
                ev = lambda t: m.eval(t, model_completion=True).as_long()  # noqa: E731
                init = {n: ev(z3.BitVec(f"r_{n}", b)) for n, b in list(BASE.items()) + [("TEMP3", 24), ("TEMP5", 24)]}
                payload = {"property": "C08", "kind": "regfile", "key": f"{key}|{name}", "writes": writes, "values": [ev(z3.BitVec(f"v{i}", 32)) for i in range(len(writes))],
                           "init": init, "obligation": name}
                res["cex"].append({"key": f"{key}|{name}", "summary": f"{key}: {name}", "payload": payload})
            else:
                res["unknown"] += 1
    return res


RS_REGS = ["A", "B", "IL", "IH", "I", "BA", "X", "Y", "U", "S", "PC", "F", "FC", "FZ", "IMR", "TEMP3", "TEMP5"]
RS_BASE = ["BA", "I", "X", "Y", "U", "S", "PC", "F"]
RS_MASKS = {"A": 0xFF, "B": 0xFF, "IL": 0xFF, "IH": 0xFF, "I": 0xFFFF, "BA": 0xFFFF, "X": 0xFFFFF, "Y": 0xFFFFF, "U": 0xFFFFF, "S": 0xFFFFF, "PC": 0xFFFFF,
            "F": 0xFF, "FC": 1, "FZ": 1, "IMR": 0xFF, "TEMP3": 0xFFFFFF, "TEMP5": 0xFFFFFF}


def run_rust_case(item):
    """Rust register file (LlamaState::set_reg/get_reg/mask_for from the crate's LLVM IR): 8 symbolic base
    writes + TEMP3/TEMP5, then the given writes by name with symbolic 32-bit values, then every register is
    read; z3 compares with regfile_spec and with the Python register file driven by the same sequence."""
    tier, writes = item
    X.setup()
    from engines.rsym import build, interp
    from sc62015.pysc62015.emulator import Registers, RegisterName

    img, _b = build.image()
    key = "rust: write " + " then ".join(writes)
    res = {"key": key, "paths": 0, "obligations": 0, "discharged": 0, "unknown": 0, "cex": [], "solver_time": 0.0, "samples": [], "inconclusive": []}
    ins = {}
    for i, n in enumerate(RS_BASE):
        ins[i] = z3.BitVec(f"in_{n}", 32)
    ins[8], ins[9] = z3.BitVec("in_TEMP3", 32), z3.BitVec("in_TEMP5", 32)
    ins[40] = len(writes)
    for k, w in enumerate(writes):
        ins[41 + 2 * k] = RS_REGS.index(w)
        ins[42 + 2 * k] = z3.BitVec(f"v{k}", 32)

    def fn():
        out = {}
        hooks = {"verif_in": lambda m, i: ins.get(i, 0), "verif_out": lambda m, i, v: out.__setitem__(i, v),
                 "verif_load": lambda m, a: 0, "verif_store": lambda m, a, v: None}
        m = interp.Machine(img, hooks)
        m.array_mode = True
        m.run(img.mod.functions["harness_regfile"], [])
        # the Python register file driven by the same sequence
        regs = Registers()
        for i, n in enumerate(RS_BASE):
            regs.set(RegisterName[n], core.SymInt.from_term(z3.ZeroExt(32, ins[i]), 0, (1 << 32) - 1))
        regs.set(RegisterName.TEMP3, core.SymInt.from_term(z3.ZeroExt(32, ins[8]), 0, (1 << 32) - 1))
        regs.set(RegisterName.TEMP5, core.SymInt.from_term(z3.ZeroExt(32, ins[9]), 0, (1 << 32) - 1))
        for k, w in enumerate(writes):
            if w != "IMR":
                regs.set(RegisterName[w], core.SymInt.from_term(z3.ZeroExt(32, ins[42 + 2 * k]), 0, (1 << 32) - 1))
        py = {n: regs.get(RegisterName[n]) for n in RS_REGS if n != "IMR"}
        return out, py

    paths, stats = explore(fn, max_paths=500)
    res["paths"] = len(paths)
    res["solver_time"] += stats.solver_time
    # spec
    st = {n: z3.BitVecVal(0, b) for n, b in BASE.items()}
    st["TEMP3"] = z3.BitVecVal(0, 24)
    st["TEMP5"] = z3.BitVecVal(0, 24)
    st["IMR"] = z3.BitVecVal(0, 8)
    seq = [(n, ins[i]) for i, n in enumerate(RS_BASE)] + [("TEMP3", ins[8]), ("TEMP5", ins[9])] + [(w, ins[42 + 2 * k]) for k, w in enumerate(writes)]
    for n, v in seq:
        if n == "IMR":
            st["IMR"] = z3.Extract(7, 0, v)
        else:
            st = dict(spec_write(st, n, v), IMR=st["IMR"])
    for p in paths:
        if p.status != "ok":
            if p.status == "inconclusive":
                res["inconclusive"].append(p.detail[:100])
            else:
                res["cex"].append({"key": f"{key}|raises|{type(p.exc).__name__}", "summary": repr(p.exc)[:200], "payload": None})
            continue
        out, py = p.value
        checks = []
        for i, n in enumerate(RS_REGS):
            got = interp.to_term(out[i], 32)
            want = z3.ZeroExt(24, st["IMR"]) if n == "IMR" else spec_read(st, n)
            checks.append((f"rust read {n}", got != want))
            if n != "IMR":
                checks.append((f"rust vs python {n}", got != core.term_of(py[n], 32)))
            mk = out[20 + i]
            checks.append((f"rust mask_for {n}", z3.BoolVal(not (isinstance(mk, int) and mk == RS_MASKS[n]))))
        for name, neg in checks:
            res["obligations"] += 1
            r, m_, dt = X.solve(p.constraints, [neg], fast=True)
            res["solver_time"] += dt
            if r == "unsat":
                res["discharged"] += 1
                if not res["samples"]:
                    res["samples"].append({"case": key, "obligation": name, "negated_post_head": neg.sexpr()[:120]})
            elif r == "sat":
                ev = lambda t: m_.eval(t, model_completion=True).as_long()  # noqa: E731
                inputs = {i: (v if isinstance(v, int) else ev(v)) for i, v in ins.items()}
                payload = {"property": "C08", "kind": "regfile", "key": f"{key}|{name}", "rust": True, "inputs": {str(i): v for i, v in inputs.items()},
                           "writes": list(writes), "obligation": name}
                res["cex"].append({"key": f"{key}|{name}", "summary": f"{key}: {name}", "payload": payload})
            else:
                res["unknown"] += 1
    return res


def main(tier):
    t0 = time.time()
    X.setup()
    rep = common.Report("C08")
    cases = [(tier, (w,)) for w in WRITE_NAMES]
    if tier == "thorough":
        cases += [(tier, (a, b)) for a in WRITE_NAMES for b in WRITE_NAMES]
    else:
        cases += [(tier, (a, b)) for a, b in (("A", "BA"), ("IL", "IH"), ("IH", "IL"), ("F", "flag:C"), ("flag:Z", "FC"), ("X", "A"), ("BA", "B"))]
    results = common.pool_map(run_case, cases)
    from engines.rsym import build

    rb = build.ensure_built()
    build.image()
    rs_cases = [(tier, (w,)) for w in RS_REGS]
    # the Rust register map caches aliases (F / FC / FZ entries): every ordered pair of writes is cheap, run them all
    rs_cases += [(tier, (a, b)) for a in RS_REGS for b in RS_REGS]
    results += common.pool_map(run_rust_case, rs_cases)
    cases = cases + rs_cases
    tot = {k: 0 for k in ("paths", "obligations", "discharged", "unknown")}
    solver_time = 0.0
    samples, inconcl = [], []
    cex = {}
    for r in results:
        if "fatal" in r:
            rep.harness_errors.append(f"{r['item']}: {r['fatal']}\n{r.get('tb', '')}")
            continue
        for k in tot:
            tot[k] += r[k]
        solver_time += r["solver_time"]
        samples += r["samples"][:1]
        inconcl += r["inconclusive"]
        for c in r["cex"]:
            cex.setdefault(c["key"], c)
    for k, c in sorted(cex.items()):
        if c["payload"] is None:
            rep.harness_errors.append(f"{k}: {c['summary']}")
        else:
            rep.counterexample(k, c["payload"], c["summary"])
    if tot["obligations"] < 300:
        rep.harness_errors.append(f"vacuity guard: only {tot['obligations']} obligations")
    if tot["unknown"] or inconcl:
        rep.harness_errors.append(f"inconclusive: {tot['unknown']} {inconcl[:3]}")
    code = rep.finish()
    wall = time.time() - t0
    coverage = {
        "obligations": tot["obligations"], "discharged": tot["discharged"], "evaluations": tot["paths"], "distinct_nontrivial": len(cases),
        "rule": "one symbolic run per write sequence (register names concrete, written values and the whole prior state symbolic)",
        "samples": samples[:6], "checker_cmd": "./check C08 --tier " + tier,
        "trusted_base": ["z3 5.1.0", "engines/pysym", "specs in checks/regfile_check.py (spec_write/spec_read)"],
        "solver_time_s": round(solver_time, 2),
        "explanation": "Inductive step over arbitrary register-file states: z3 decides, for all 32-bit written values and all prior states satisfying the representation invariant, that every read returns the specified alias/width/flag value, that the invariant is re-established, and that a snapshot applied to a fresh file reproduces every read.",
        "functions_encoded": ["Rust (LLVM IR): sc62015_core::llama::state::LlamaState::set_reg/get_reg, mask_for (incl. hashbrown map)", "sc62015.pysc62015.emulator.Registers.get/set/get_by_name/set_by_name/get_flag/set_flag",
                              "sc62015.pysc62015.stepper.CPURegistersSnapshot.from_registers/apply_to/to_dict"],
        "bounds": {"write_sequence_length": "Python: 1 (quick) / 2 (thorough) from an arbitrary state; Rust: canonical state + all ordered pairs of writes", "note": "arbitrary prior state => histories of any length by induction (invariant obligation)"},
    }
    assumptions = ["registers other than TEMP3/TEMP5 among the 14 TEMPs are 0 for the snapshot part (from_registers branches on each)",
                   "Rust register file: canonical state built by 8 symbolic base writes + 1 (quick) / 2 (thorough) symbolic writes by name; 18-byte snapshot packers (to_bytes/zip) are outside"]
    common.write_evidence("C08", tier, "other", coverage, assumptions, wall, len(rep.violations))
    print(f"C08 {tier}: cases={len(cases)} paths={tot['paths']} obligations={tot['obligations']} discharged={tot['discharged']} cex={len(cex)} solver={solver_time:.1f}s wall={wall:.1f}s")
    return code
