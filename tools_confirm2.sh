#!/bin/bash
# usage: tools_confirm2.sh <worktree name under /tmp/wt> <k> <seeded id>  -- confirms a sub-agent's mutation (Python or Rust demo) and files it under /verif/seeded/<id>
N="$1"; K="$2"; ID="$3"; WT=/tmp/wt/$N; M=$WT/MUTATION; S=/tmp/wt/$N-confirm-rs
cd $WT || exit 9
git checkout -q -- . ; git apply --check $M/m$K.patch || { echo "patch does not apply"; exit 9; }
export FORCE_BINJA_MOCK=1 PYTHONPATH=$WT PYTHONDONTWRITEBYTECODE=1
run_demo() {
  if [ -f $M/m${K}_demo.rs ]; then
    VERIF_REPO=$WT /tmp/wt/rustbuild.sh $S >/dev/null 2>&1
    mkdir -p $S/core/examples; cp $M/m${K}_demo.rs $S/core/examples/m${K}_demo.rs
    ( cd $S/core && CARGO_NET_OFFLINE=true timeout 900 cargo run --offline --example m${K}_demo >/tmp/demo_$N$K.out 2>&1 ); return $?
  else
    timeout 600 /venv/bin/python $M/m${K}_demo.py >/tmp/demo_$N$K.out 2>&1; return $?
  fi
}
run_demo; clean=$?
git apply $M/m$K.patch
run_demo; mut=$?
build="n/a"
if [ -f $M/m${K}_demo.rs ]; then build=$( cd $S/core && CARGO_NET_OFFLINE=true cargo build --offline --lib 2>&1 | tail -1 ); fi
suite=$(timeout 900 /venv/bin/python -m pytest -q -p no:cacheprovider --timeout=900 --continue-on-collection-errors 2>&1 | tail -1)
git checkout -q -- .
rm -rf $S
echo "$ID: demo clean exit=$clean, with mutation exit=$mut, build: $build, suite: $suite"
if [ $clean -eq 0 ] && [ $mut -ne 0 ] && echo "$suite" | grep -q "17 failed, 412 passed"; then
  D=/verif/seeded/$ID; mkdir -p $D
  cp $M/m$K.patch $D/patch.diff; cp $M/m${K}_demo.* $D/ 2>/dev/null; cp $M/m${K}_notes.md $D/notes.md
  echo "CONFIRMED -> $D"
else
  echo "NOT CONFIRMED"; tail -5 /tmp/demo_$N$K.out
fi
