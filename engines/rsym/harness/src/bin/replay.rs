//! Native replay of a harness entry point on concrete inputs.
//! usage: replay <entry> <input-file>
//! input file lines:  "in <idx> <value>" | "mem <addr> <value>" | "default <byte>"
//! output lines:      "ret <v>" | "out <idx> <value>" | "st <addr> <value>"
use std::cell::RefCell;
use std::collections::HashMap;

thread_local! {
    static INPUTS: RefCell<HashMap<u32, u32>> = RefCell::new(HashMap::new());
    static INPUTS64: RefCell<HashMap<u32, u64>> = RefCell::new(HashMap::new());
    static OUT64: RefCell<Vec<(u32, u64)>> = RefCell::new(Vec::new());
    static MEM: RefCell<HashMap<u32, u8>> = RefCell::new(HashMap::new());
    static DEFAULT: RefCell<u8> = RefCell::new(0);
    static OUT: RefCell<Vec<(u32, u32)>> = RefCell::new(Vec::new());
    static STORES: RefCell<Vec<(u32, u8)>> = RefCell::new(Vec::new());
}

#[no_mangle]
pub extern "C" fn verif_in(idx: u32) -> u32 {
    INPUTS.with(|m| *m.borrow().get(&idx).unwrap_or(&0))
}
#[no_mangle]
pub extern "C" fn verif_in64(idx: u32) -> u64 {
    INPUTS64.with(|m| *m.borrow().get(&idx).unwrap_or(&0))
}
#[no_mangle]
pub extern "C" fn verif_out64(idx: u32, value: u64) {
    OUT64.with(|o| o.borrow_mut().push((idx, value)));
}
#[no_mangle]
pub extern "C" fn verif_out(idx: u32, value: u32) {
    OUT.with(|o| o.borrow_mut().push((idx, value)));
}
#[no_mangle]
pub extern "C" fn verif_load(addr: u32) -> u8 {
    let d = DEFAULT.with(|d| *d.borrow());
    MEM.with(|m| *m.borrow().get(&addr).unwrap_or(&d))
}
#[no_mangle]
pub extern "C" fn verif_store(addr: u32, value: u8) {
    MEM.with(|m| m.borrow_mut().insert(addr, value));
    STORES.with(|s| s.borrow_mut().push((addr, value)));
}

fn main() {
    let args: Vec<String> = std::env::args().collect();
    let text = std::fs::read_to_string(&args[2]).expect("input file");
    for line in text.lines() {
        let p: Vec<&str> = line.split_whitespace().collect();
        if p.is_empty() {
            continue;
        }
        match p[0] {
            "in" => INPUTS.with(|m| {
                m.borrow_mut().insert(p[1].parse().unwrap(), p[2].parse::<u64>().unwrap() as u32);
            }),
            "in64" => INPUTS64.with(|m| {
                m.borrow_mut().insert(p[1].parse().unwrap(), p[2].parse::<u64>().unwrap());
            }),
            "mem" => MEM.with(|m| {
                m.borrow_mut().insert(p[1].parse().unwrap(), p[2].parse().unwrap());
            }),
            "default" => DEFAULT.with(|d| *d.borrow_mut() = p[1].parse().unwrap()),
            _ => {}
        }
    }
    let ret = verif_harness::dispatch(&args[1]);
    println!("ret {}", ret);
    OUT.with(|o| {
        for (i, v) in o.borrow().iter() {
            println!("out {} {}", i, v);
        }
    });
    OUT64.with(|o| {
        for (i, v) in o.borrow().iter() {
            println!("out64 {} {}", i, v);
        }
    });
    STORES.with(|s| {
        for (a, v) in s.borrow().iter() {
            println!("st {} {}", a, v);
        }
    });
}
