//! Harness entry points compiled together with the real sc62015-core crate.
//! Inputs/outputs go through the extern "C" verif_* hooks: the symbolic interpreter
//! (engines/rsym) binds them to z3 terms, the native replay binary to concrete values.

use sc62015_core::llama::eval::{LlamaBus, LlamaExecutor};
use sc62015_core::llama::opcodes::RegName;
use sc62015_core::llama::state::{mask_for, LlamaState};

extern "C" {
    pub fn verif_load(addr: u32) -> u8;
    pub fn verif_store(addr: u32, value: u8);
    pub fn verif_in(idx: u32) -> u32;
    pub fn verif_out(idx: u32, value: u32);
}

fn vin(i: u32) -> u32 {
    unsafe { verif_in(i) }
}
fn vout(i: u32, v: u32) {
    unsafe { verif_out(i, v) }
}

pub struct HBus;
impl LlamaBus for HBus {
    fn load(&mut self, addr: u32, bits: u8) -> u32 {
        let bytes = ((bits as u32) + 7) / 8;
        let mut v: u32 = 0;
        for i in 0..bytes {
            v |= (unsafe { verif_load(addr.wrapping_add(i)) } as u32) << (8 * i);
        }
        v
    }
    fn store(&mut self, addr: u32, bits: u8, value: u32) {
        let bytes = ((bits as u32) + 7) / 8;
        for i in 0..bytes {
            unsafe { verif_store(addr.wrapping_add(i), ((value >> (8 * i)) & 0xFF) as u8) };
        }
    }
}

pub const REGS: [RegName; 8] = [
    RegName::BA,
    RegName::I,
    RegName::X,
    RegName::Y,
    RegName::U,
    RegName::S,
    RegName::PC,
    RegName::F,
];

fn out_state(st: &LlamaState, res: Result<u8, &'static str>) -> i32 {
    for (i, r) in REGS.iter().enumerate() {
        vout(i as u32, st.get_reg(*r));
    }
    vout(8, st.is_halted() as u32);
    vout(9, st.is_off() as u32);
    vout(10, st.get_reg(RegName::FC));
    vout(11, st.get_reg(RegName::FZ));
    match res {
        Ok(len) => len as i32,
        Err(_) => -1,
    }
}

/// One instruction on a fresh state: inputs 0..7 = BA,I,X,Y,U,S,PC,F.
#[no_mangle]
pub extern "C" fn harness_execute() -> i32 {
    let mut st = LlamaState::new();
    for (i, r) in REGS.iter().enumerate() {
        st.set_reg(*r, vin(i as u32));
    }
    let mut bus = HBus;
    let mut ex = LlamaExecutor::new();
    let opcode = unsafe { verif_load(st.pc()) };
    let res = ex.execute(opcode, &mut st, &mut bus);
    out_state(&st, res)
}

/// Same, after an arbitrary *hidden* history: TEMP registers (inputs 20..33), call depth /
/// sub level (34, 35), one call frame (36 dest, 37 ret bits), one call page (38).
#[no_mangle]
pub extern "C" fn harness_execute_hidden() -> i32 {
    let mut st = LlamaState::new();
    for (i, r) in REGS.iter().enumerate() {
        st.set_reg(*r, vin(i as u32));
    }
    for t in 0..14u8 {
        st.set_reg(RegName::Temp(t), vin(20 + t as u32));
    }
    st.set_call_depth(vin(34));
    st.set_call_sub_level(vin(35));
    if vin(39) & 1 != 0 {
        st.push_call_frame(vin(36), (vin(37) & 0xFF) as u8);
    }
    if vin(39) & 2 != 0 {
        st.push_call_page(vin(38));
    }
    let mut bus = HBus;
    let mut ex = LlamaExecutor::new();
    let opcode = unsafe { verif_load(st.pc()) };
    let res = ex.execute(opcode, &mut st, &mut bus);
    out_state(&st, res)
}

pub const ALL_REGS: [RegName; 17] = [
    RegName::A,
    RegName::B,
    RegName::IL,
    RegName::IH,
    RegName::I,
    RegName::BA,
    RegName::X,
    RegName::Y,
    RegName::U,
    RegName::S,
    RegName::PC,
    RegName::F,
    RegName::FC,
    RegName::FZ,
    RegName::IMR,
    RegName::Temp(3),
    RegName::Temp(5),
];

/// Register file: 8 base writes (inputs 0..7), then `n` writes (input 40 = n <= 2; name index
/// 41/43, value 42/44), then every register is read (outputs 0..16) and mask_for (20..36).
#[no_mangle]
pub extern "C" fn harness_regfile() -> i32 {
    let mut st = LlamaState::new();
    for (i, r) in REGS.iter().enumerate() {
        st.set_reg(*r, vin(i as u32));
    }
    st.set_reg(RegName::Temp(3), vin(8));
    st.set_reg(RegName::Temp(5), vin(9));
    let n = vin(40);
    if n >= 1 {
        st.set_reg(ALL_REGS[(vin(41) % 17) as usize], vin(42));
    }
    if n >= 2 {
        st.set_reg(ALL_REGS[(vin(43) % 17) as usize], vin(44));
    }
    for (i, r) in ALL_REGS.iter().enumerate() {
        vout(i as u32, st.get_reg(*r));
        vout(20 + i as u32, mask_for(*r));
    }
    0
}

/// Entry-point dispatch for the native replay binary.
pub fn dispatch(name: &str) -> i32 {
    match name {
        "harness_execute" => harness_execute(),
        "harness_execute_hidden" => harness_execute_hidden(),
        "harness_regfile" => harness_regfile(),
        _ => -999,
    }
}
