//! Harness entry points compiled together with the real sc62015-core crate.
//! Inputs/outputs go through the extern "C" verif_* hooks: the symbolic interpreter
//! (engines/rsym) binds them to z3 terms, the native replay binary to concrete values.

use sc62015_core::llama::eval::{LlamaBus, LlamaExecutor};
use sc62015_core::llama::opcodes::RegName;
use sc62015_core::llama::state::{mask_for, LlamaState};

extern "C" {
    pub fn verif_load(addr: u32) -> u8;
    pub fn verif_store(addr: u32, value: u8);
    pub fn verif_in(idx: u32) -> u32;
    pub fn verif_out(idx: u32, value: u32);
    pub fn verif_in64(idx: u32) -> u64;
    pub fn verif_out64(idx: u32, value: u64);
}

fn vin(i: u32) -> u32 {
    unsafe { verif_in(i) }
}
fn vout(i: u32, v: u32) {
    unsafe { verif_out(i, v) }
}

pub struct HBus;
impl LlamaBus for HBus {
    fn load(&mut self, addr: u32, bits: u8) -> u32 {
        let bytes = ((bits as u32) + 7) / 8;
        let mut v: u32 = 0;
        for i in 0..bytes {
            v |= (unsafe { verif_load(addr.wrapping_add(i)) } as u32) << (8 * i);
        }
        v
    }
    fn store(&mut self, addr: u32, bits: u8, value: u32) {
        let bytes = ((bits as u32) + 7) / 8;
        for i in 0..bytes {
            unsafe { verif_store(addr.wrapping_add(i), ((value >> (8 * i)) & 0xFF) as u8) };
        }
    }
}

pub const REGS: [RegName; 8] = [
    RegName::BA,
    RegName::I,
    RegName::X,
    RegName::Y,
    RegName::U,
    RegName::S,
    RegName::PC,
    RegName::F,
];

fn out_state(st: &LlamaState, res: Result<u8, &'static str>) -> i32 {
    for (i, r) in REGS.iter().enumerate() {
        vout(i as u32, st.get_reg(*r));
    }
    vout(8, st.is_halted() as u32);
    vout(9, st.is_off() as u32);
    vout(10, st.get_reg(RegName::FC));
    vout(11, st.get_reg(RegName::FZ));
    match res {
        Ok(len) => len as i32,
        Err(_) => -1,
    }
}

/// One instruction on a fresh state: inputs 0..7 = BA,I,X,Y,U,S,PC,F.
#[no_mangle]
pub extern "C" fn harness_execute() -> i32 {
    let mut st = LlamaState::new();
    for (i, r) in REGS.iter().enumerate() {
        st.set_reg(*r, vin(i as u32));
    }
    let mut bus = HBus;
    let mut ex = LlamaExecutor::new();
    let opcode = unsafe { verif_load(st.pc()) };
    let res = ex.execute(opcode, &mut st, &mut bus);
    out_state(&st, res)
}

/// Same, after an arbitrary *hidden* history: TEMP registers (inputs 20..33), call depth /
/// sub level (34, 35), one call frame (36 dest, 37 ret bits), one call page (38), and earlier
/// individual writes of the carry / zero flag (45, 46) that the architectural F write below overrides.
#[no_mangle]
pub extern "C" fn harness_execute_hidden() -> i32 {
    let mut st = LlamaState::new();
    st.set_reg(RegName::FC, vin(45) & 1);
    st.set_reg(RegName::FZ, vin(46) & 1);
    for (i, r) in REGS.iter().enumerate() {
        st.set_reg(*r, vin(i as u32));
    }
    for t in 0..14u8 {
        st.set_reg(RegName::Temp(t), vin(20 + t as u32));
    }
    st.set_call_depth(vin(34));
    st.set_call_sub_level(vin(35));
    if vin(39) & 1 != 0 {
        st.push_call_frame(vin(36), (vin(37) & 0xFF) as u8);
    }
    if vin(39) & 2 != 0 {
        st.push_call_page(vin(38));
    }
    let mut bus = HBus;
    let mut ex = LlamaExecutor::new();
    let opcode = unsafe { verif_load(st.pc()) };
    let res = ex.execute(opcode, &mut st, &mut bus);
    out_state(&st, res)
}

pub const ALL_REGS: [RegName; 17] = [
    RegName::A,
    RegName::B,
    RegName::IL,
    RegName::IH,
    RegName::I,
    RegName::BA,
    RegName::X,
    RegName::Y,
    RegName::U,
    RegName::S,
    RegName::PC,
    RegName::F,
    RegName::FC,
    RegName::FZ,
    RegName::IMR,
    RegName::Temp(3),
    RegName::Temp(5),
];

/// Register file: 8 base writes (inputs 0..7), then `n` writes (input 40 = n <= 2; name index
/// 41/43, value 42/44), then every register is read (outputs 0..16) and mask_for (20..36).
#[no_mangle]
pub extern "C" fn harness_regfile() -> i32 {
    let mut st = LlamaState::new();
    for (i, r) in REGS.iter().enumerate() {
        st.set_reg(*r, vin(i as u32));
    }
    st.set_reg(RegName::Temp(3), vin(8));
    st.set_reg(RegName::Temp(5), vin(9));
    let n = vin(40);
    if n >= 1 {
        st.set_reg(ALL_REGS[(vin(41) % 17) as usize], vin(42));
    }
    if n >= 2 {
        st.set_reg(ALL_REGS[(vin(43) % 17) as usize], vin(44));
    }
    for (i, r) in ALL_REGS.iter().enumerate() {
        vout(i as u32, st.get_reg(*r));
        vout(20 + i as u32, mask_for(*r));
    }
    0
}

// ---------------------------------------------------------------------------------------------
// Timer (C13): one tick_timers call from an arbitrary TimerContext state.
// inputs: 50 enabled, 51 preserve_phase, 52/53 mti_period lo/hi, 54/55 sti_period, 56/57 next_mti,
//         58/59 next_sti, 60/61 cycle, 62 initial ISR byte
// outputs: 0 fired_mti, 1 fired_sti, 2/3 next_mti lo/hi, 4/5 next_sti lo/hi, 6 ISR after, 7 irq_pending
use sc62015_core::memory::MemoryImage;
use sc62015_core::timer::TimerContext;

fn vin64(i: u32) -> u64 {
    unsafe { verif_in64(i) }
}
fn vout64(i: u32, v: u64) {
    unsafe { verif_out64(i, v) }
}

#[no_mangle]
pub extern "C" fn harness_timer() -> i32 {
    let mut t = TimerContext::new(vin(50) != 0, 0, 0);
    t.set_preserve_phase(vin(51) != 0);
    t.mti_period = vin64(52);
    t.sti_period = vin64(54);
    t.next_mti = vin64(56);
    t.next_sti = vin64(58);
    let mut mem = MemoryImage::new();
    mem.write_internal_byte(0xFC, (vin(62) & 0xFF) as u8);
    let (m, s) = t.tick_timers(&mut mem, vin64(60), None);
    vout(0, m as u32);
    vout(1, s as u32);
    vout64(2, t.next_mti);
    vout64(4, t.next_sti);
    vout(6, mem.read_internal_byte(0xFC).unwrap_or(0) as u32);
    vout(7, t.irq_pending as u32);
    0
}

/// Timer reset: inputs as above + 60/61 = current cycle; outputs 2..5 = next targets.
#[no_mangle]
pub extern "C" fn harness_timer_reset() -> i32 {
    let mut t = TimerContext::new(vin(50) != 0, 0, 0);
    t.mti_period = vin64(52);
    t.sti_period = vin64(54);
    t.next_mti = vin64(56);
    t.next_sti = vin64(58);
    t.reset(vin64(60));
    vout64(2, t.next_mti);
    vout64(4, t.next_sti);
    0
}

// ---------------------------------------------------------------------------------------------
// LCD (C15).  The controller state is private, so an arbitrary state is *driven* through the
// protocol itself: for each chip ON/OFF, start line, every VRAM byte (inputs 1000.. / 2000..),
// then page / column, then optionally a status read to clear busy.
use sc62015_core::lcd::LcdController;

const LCD_BASE: u32 = 0x2000;
fn lcd_addr(cs: u32, di: u32, rw: u32) -> u32 {
    LCD_BASE | (cs << 2) | (di << 1) | rw
}

fn lcd_prepare(lcd: &mut LcdController) {
    for chip in 0..2u32 {
        let cs = if chip == 0 { 2 } else { 1 }; // left = 0b10, right = 0b01
        let base = 100 + chip * 10;
        for page in 0..8u32 {
            lcd.write(lcd_addr(cs, 0, 0), (0x80 | page) as u8); // set page
            lcd.write(lcd_addr(cs, 0, 0), 0x40); // set Y = 0
            for col in 0..64u32 {
                lcd.write(lcd_addr(cs, 1, 0), (vin(1000 + chip * 1000 + page * 64 + col) & 0xFF) as u8);
            }
        }
        lcd.write(lcd_addr(cs, 0, 0), (vin(base) & 1) as u8); // on/off
        lcd.write(lcd_addr(cs, 0, 0), (0xC0 | (vin(base + 1) & 0x3F)) as u8); // start line
        lcd.write(lcd_addr(cs, 0, 0), (0x80 | (vin(base + 2) & 7)) as u8); // page
        lcd.write(lcd_addr(cs, 0, 0), (0x40 | (vin(base + 3) & 0x3F)) as u8); // column
        if vin(base + 4) & 1 == 0 {
            let _ = lcd.read(lcd_addr(cs, 0, 1)); // status read clears busy
        }
    }
}

/// Status reads (busy/on) — the part of the state observed through the protocol in the symbolic run;
/// on/start line/page/column/VRAM are read by the interpreter straight from the controller's memory.
fn lcd_dump(lcd: &mut LcdController) {
    for chip in 0..2u32 {
        let cs = if chip == 0 { 2 } else { 1 };
        vout(20 + chip, lcd.read(lcd_addr(cs, 0, 1)).map(|v| v as u32).unwrap_or(0x100));
    }
    let st = lcd.stats();
    vout(40, st.chip_on[0] as u32);
    vout(41, st.chip_on[1] as u32);
}

/// Native replay only: the full state through the public snapshot API.
fn lcd_dump_snapshot(lcd: &LcdController) {
    let (meta, payload) = lcd.export_snapshot();
    if let Some(chips) = meta.get("chips").and_then(|v| v.as_array()) {
        for (i, c) in chips.iter().enumerate() {
            let base = 60 + 10 * i as u32;
            vout(base, c.get("on").and_then(|v| v.as_bool()).unwrap_or(false) as u32);
            vout(base + 1, c.get("start_line").and_then(|v| v.as_u64()).unwrap_or(999) as u32);
            vout(base + 2, c.get("page").and_then(|v| v.as_u64()).unwrap_or(999) as u32);
            vout(base + 3, c.get("y_address").and_then(|v| v.as_u64()).unwrap_or(999) as u32);
        }
    }
    for (k, b) in payload.iter().enumerate() {
        vout(10_000 + k as u32, *b as u32);
    }
}

/// The symbolic run splits preparation (fork-free, executed once per state class) from the operation
/// (explored path by path from a snapshot of the prepared machine); the native replay runs both in one call.
static mut LCD_PTR: *mut LcdController = std::ptr::null_mut();

#[no_mangle]
pub extern "C" fn harness_lcd_prepare() -> i32 {
    let mut b = Box::new(LcdController::new());
    lcd_prepare(&mut b);
    unsafe {
        LCD_PTR = Box::into_raw(b);
    }
    0
}

/// op: input 200 = 0 write / 1 read; 201 address; 202 value.  outputs: 0 = read result (0x100 = None)
#[no_mangle]
pub extern "C" fn harness_lcd_op2() -> i32 {
    let lcd: &mut LcdController = unsafe { &mut *LCD_PTR };
    let addr = vin(201);
    if vin(200) == 0 {
        lcd.write(addr, (vin(202) & 0xFF) as u8);
        vout(0, 0x200);
    } else {
        vout(0, lcd.read(addr).map(|v| v as u32).unwrap_or(0x100));
    }
    lcd_dump(lcd);
    0
}

#[no_mangle]
pub extern "C" fn harness_lcd_op() -> i32 {
    harness_lcd_prepare();
    // snapshot first: the status reads of op2's dump clear busy but nothing else
    let lcd: &mut LcdController = unsafe { &mut *LCD_PTR };
    let addr = vin(201);
    if vin(200) == 0 {
        lcd.write(addr, (vin(202) & 0xFF) as u8);
        vout(0, 0x200);
    } else {
        vout(0, lcd.read(addr).map(|v| v as u32).unwrap_or(0x100));
    }
    lcd_dump_snapshot(lcd);
    lcd_dump(lcd);
    0
}

#[no_mangle]
pub extern "C" fn harness_lcd_pixels2() -> i32 {
    let lcd: &mut LcdController = unsafe { &mut *LCD_PTR };
    let buf = lcd.display_buffer();
    for (r, row) in buf.iter().enumerate() {
        for (c, p) in row.iter().enumerate() {
            vout(50_000 + (r as u32) * 240 + c as u32, *p as u32);
        }
    }
    0
}

/// display buffer over symbolic VRAM: outputs 50_000 + row*240 + col
#[no_mangle]
pub extern "C" fn harness_lcd_pixels() -> i32 {
    let mut lcd = LcdController::new();
    lcd_prepare(&mut lcd);
    let buf = lcd.display_buffer();
    for (r, row) in buf.iter().enumerate() {
        for (c, p) in row.iter().enumerate() {
            vout(50_000 + (r as u32) * 240 + c as u32, *p as u32);
        }
    }
    0
}

// ---------------------------------------------------------------------------------------------
// Keyboard (C14).  An arbitrary state of two chosen keys, the strobe registers, the thresholds and the
// event ring is loaded through the public snapshot API (KeyboardSnapshot has public fields), then one
// operation runs.  Inputs: 300/340 name lengths, 301../341.. name bytes (concrete), 400+8*i+{0..4} key
// i pressed/debounced/press/release/repeat ticks, 420.. registers and settings, 430.. ring, 450.. op.
use sc62015_core::keyboard::{KeyStateSnapshot, KeyboardMatrix, KeyboardSnapshot};
use std::collections::HashMap;

fn kb_name(base: u32) -> String {
    let n = vin(base);
    (0..n).map(|i| (vin(base + 1 + i) & 0x7F) as u8 as char).collect()
}

fn kb_prepare(mem: &mut MemoryImage) -> KeyboardMatrix {
    let mut key_states: HashMap<String, KeyStateSnapshot> = HashMap::new();
    for i in 0..2u32 {
        let b = 400 + 8 * i;
        key_states.insert(
            kb_name(300 + 40 * i),
            KeyStateSnapshot {
                pressed: vin(b) & 1 != 0,
                debounced: vin(b + 1) & 1 != 0,
                press_ticks: vin(b + 2) as u8,
                release_ticks: vin(b + 3) as u8,
                repeat_ticks: vin(b + 4) as u8,
            },
        );
    }
    let snap = KeyboardSnapshot {
        kol: vin(420) as u8,
        koh: vin(421) as u8,
        kil_latch: 0,
        fifo_len: vin(430) as usize,
        fifo: (0..8).map(|i| vin(440 + i) as u8).collect(),
        head: vin(431) as usize,
        tail: vin(432) as usize,
        irq_count: vin(433),
        strobe_count: 0,
        active_columns: Vec::new(),
        pressed_keys: Vec::new(),
        key_states,
        column_histogram: Vec::new(),
        press_threshold: vin(423) as u8,
        release_threshold: vin(424) as u8,
        repeat_delay: vin(425) as u8,
        repeat_interval: vin(426) as u8,
        // the state is loaded under the *earlier* polarity (input 428); the polarity under test is then set through the
        // public setter, as a host that flips the strobe polarity at run time does
        columns_active_high: vin(428) & 1 != 0,
        scan_enabled: true,
        kil_read_count: 0,
    };
    let mut kb = KeyboardMatrix::new();
    kb.load_snapshot_state(&snap);
    kb.set_columns_active_high(vin(422) & 1 != 0);
    kb.set_repeat_enabled(vin(427) & 1 != 0);
    mem.write_internal_byte(0xFC, vin(434) as u8);
    kb
}

fn kb_op(kb: &mut KeyboardMatrix, mem: &mut MemoryImage) {
    let (a1, a2, a3) = (vin(451), vin(452), vin(453));
    match vin(450) {
        0 => vout(1, kb.scan_tick(mem, a1 & 1 != 0) as u32),
        1 => vout(1, kb.handle_read(a1, mem).map(|v| v as u32).unwrap_or(0x100)),
        2 => vout(1, kb.handle_write(a1, a2 as u8, mem) as u32),
        3 => kb.press_matrix_code(a1 as u8, mem),
        4 => kb.release_matrix_code(a1 as u8, mem),
        5 => vout(1, kb.inject_matrix_event(a1 as u8, a2 & 1 != 0, mem, a3 & 1 != 0) as u32),
        6 => kb.write_fifo_to_memory(mem, a1 & 1 != 0),
        _ => {}
    }
}

/// Public observers (cheap ones; per-key automaton state and the event ring are read from memory by the
/// interpreter in the symbolic run, and through snapshot_state()/fifo_snapshot() in the native replay).
fn kb_dump(kb: &mut KeyboardMatrix, mem: &mut MemoryImage, native: bool) {
    vout(2, mem.read_internal_byte(0xFC).map(|v| v as u32).unwrap_or(0x100));
    vout(3, kb.irq_count());
    vout(4, kb.fifo_len() as u32);
    if native {
        let f = kb.fifo_snapshot();
        for (i, b) in f.iter().enumerate() {
            vout(20 + i as u32, *b as u32);
        }
    }
    vout(5, mem.read_internal_byte(0xF0).map(|v| v as u32).unwrap_or(0x100));
    vout(6, mem.read_internal_byte(0xF1).map(|v| v as u32).unwrap_or(0x100));
    kb.handle_write(0xF2, 0, mem); // publishes the KIL latch
    vout(7, mem.read_internal_byte(0xF2).map(|v| v as u32).unwrap_or(0x100));
    vout(8, kb.handle_read(0xF0, mem).map(|v| v as u32).unwrap_or(0x100));
    vout(9, kb.handle_read(0xF1, mem).map(|v| v as u32).unwrap_or(0x100));
    // KEYI latch: with ISR cleared and keyboard interrupts enabled, is the key interrupt (re)raised?
    mem.write_internal_byte(0xFC, 0);
    kb.write_fifo_to_memory(mem, true);
    vout(10, mem.read_internal_byte(0xFC).map(|v| v as u32).unwrap_or(0x100));
}

#[no_mangle]
pub extern "C" fn harness_kb() -> i32 {
    let mut mem = MemoryImage::new();
    let mut kb = Box::new(kb_prepare(&mut mem)); // on the heap: live cells are found by scanning heap memory
    vout(99, 0); // the interpreter locates the per-key cells here ...
    kb_op(&mut kb, &mut mem);
    vout(98, 0); // ... and reads them back here
    kb_dump(&mut kb, &mut mem, false);
    0
}

/// Native replay: as harness_kb plus the per-key automaton state through snapshot_state().
#[no_mangle]
pub extern "C" fn harness_kb_native() -> i32 {
    let mut mem = MemoryImage::new();
    let mut kb = kb_prepare(&mut mem);
    kb_op(&mut kb, &mut mem);
    let snap = kb.snapshot_state();
    for i in 0..2u32 {
        if let Some(st) = snap.key_states.get(&kb_name(300 + 40 * i)) {
            let b = 100 + 8 * i;
            vout(b, st.pressed as u32);
            vout(b + 1, st.debounced as u32);
            vout(b + 2, st.press_ticks as u32);
            vout(b + 3, st.release_ticks as u32);
            vout(b + 4, st.repeat_ticks as u32);
        }
    }
    kb_dump(&mut kb, &mut mem, true);
    0
}

// ---------------------------------------------------------------------------------------------
// Memory bus (C11).  MemoryImage under a configuration (input 500), internal memory loaded from 256
// inputs (2000..), external memory / overlay buffers start with arbitrary contents (the interpreter
// gives those allocations symbolic contents; the native replay takes them from `mem` lines).
// mode 510: 0 = store then load (before/after byte at a2), 1 = multi-byte load vs byte loads.
fn mem_prepare() -> Box<MemoryImage> {
    let mut m = Box::new(MemoryImage::new());
    {
        let blob: Vec<u8> = (0..256u32).map(|i| vin(2000 + i) as u8).collect();
        m.load_internal(&blob);
    }
    let cfg = vin(500);
    if cfg == 1 || cfg == 2 || cfg == 3 || cfg == 4 {
        sc62015_core::pce500::configure_pce500_memory_map(&mut m);
    }
    if cfg == 2 {
        m.set_internal_ram_mirror(true);
    }
    if cfg == 3 {
        let card = harness_buffer(8192, 0x0300_0000);
        let _ = m.load_memory_card(&card);
    }
    if cfg == 4 {
        m.set_memory_card_slot_present(false);
    }
    if cfg == 5 {
        m.add_ram_overlay(0x80000, 0x8000, "ram_expansion");
        harness_fill_overlay(&mut m, 0x80000, 0x8000, 0x0500_0000);
    }
    if cfg == 6 {
        let rom = harness_buffer(0x1000, 0x0600_0000);
        m.add_rom_overlay(0xC0000, &rom, "rom_overlay");
    }
    harness_fill_external(&mut m);
    m
}

/// Arbitrary buffer contents.  Symbolic run: the allocation itself is symbolic (verif_load is never
/// consulted, returns 0 = leave as is).  Native replay: bytes come from the `mem` lines at tag+offset.
fn harness_buffer(len: usize, tag: u32) -> Vec<u8> {
    let mut v = vec![0u8; len];
    if vin(509) != 0 {
        for (i, b) in v.iter_mut().enumerate() {
            *b = unsafe { verif_load(tag + i as u32) } as u8;
        }
    }
    v
}

fn harness_fill_external(m: &mut MemoryImage) {
    if vin(509) != 0 {
        // native replay only: sparse initial contents of external memory
        let n = vin(508);
        for i in 0..n {
            // raw physical cell (as a loaded system image would fill it): no mirror folding, no read-only check
            let a = vin(3000 + 2 * i);
            m.write_external_slice(a as usize, &[vin(3001 + 2 * i) as u8]);
        }
    }
}

fn harness_fill_overlay(m: &mut MemoryImage, start: u32, _len: usize, _tag: u32) {
    if vin(509) != 0 {
        let n = vin(507);
        for i in 0..n {
            let off = vin(4000 + 2 * i);
            let _ = m.store(start + off, 8, vin(4001 + 2 * i));
        }
    }
}

#[no_mangle]
pub extern "C" fn harness_mem() -> i32 {
    let mut m = mem_prepare();
    vout(99, 0);
    let (a, bits, v, a2) = (vin(501), vin(502) as u8, vin(503), vin(504));
    if vin(510) == 0 {
        vout(10, m.load(a2, 8).unwrap_or(0x100));
        vout(1, m.store(a, bits, v).is_some() as u32);
        vout(20, m.load(a2, 8).unwrap_or(0x100));
    } else {
        vout(30, m.load(a2, bits).unwrap_or(0xFFFF_FFFF));
        let n = (bits as u32 + 7) / 8;
        for i in 0..n {
            vout(40 + i, m.load(a2.wrapping_add(i), 8).unwrap_or(0x100));
        }
    }
    0
}

// ---------------------------------------------------------------------------------------------
// Tables and constants (C17).
use sc62015_core::llama::opcodes::{OperandKind, RegImemOffsetKind, OPCODES};

fn reg_code(r: RegName) -> u32 {
    match r {
        RegName::A => 0,
        RegName::B => 1,
        RegName::BA => 2,
        RegName::IL => 3,
        RegName::IH => 4,
        RegName::I => 5,
        RegName::X => 6,
        RegName::Y => 7,
        RegName::U => 8,
        RegName::S => 9,
        RegName::F => 10,
        RegName::PC => 11,
        RegName::FC => 12,
        RegName::FZ => 13,
        RegName::IMR => 14,
        RegName::Temp(n) => 100 + n as u32,
        RegName::Unknown(_) => 255,
    }
}

fn operand_code(o: &OperandKind) -> (u32, u32, u32) {
    match *o {
        OperandKind::Reg(r, w) => (1, reg_code(r), w as u32),
        OperandKind::Imm(w) => (2, w as u32, 0),
        OperandKind::ImmOffset => (3, 0, 0),
        OperandKind::IMem(w) => (4, w as u32, 0),
        OperandKind::EMemAddr(w) => (5, w as u32, 0),
        OperandKind::EMemReg(w) => (6, w as u32, 0),
        OperandKind::EMemIMem(w) => (7, w as u32, 0),
        OperandKind::EMemImemOffsetDestIntMem => (8, 0, 0),
        OperandKind::EMemImemOffsetDestExtMem => (9, 0, 0),
        OperandKind::EMemRegModePostPre => (10, 0, 0),
        OperandKind::EMemAddrWidth(w) => (11, w as u32, 0),
        OperandKind::EMemAddrWidthOp(w) => (12, w as u32, 0),
        OperandKind::EMemRegWidth(w) => (13, w as u32, 0),
        OperandKind::EMemRegWidthMode(w) => (14, w as u32, 0),
        OperandKind::EMemIMemWidth(w) => (15, w as u32, 0),
        OperandKind::IMemWidth(w) => (16, w as u32, 0),
        OperandKind::RegPair(w) => (17, w as u32, 0),
        OperandKind::RegIMemOffset(k) => (18, match k { RegImemOffsetKind::DestImem => 0, RegImemOffsetKind::DestRegOffset => 1 }, 0),
        OperandKind::RegB => (19, 0, 0),
        OperandKind::RegIL => (20, 0, 0),
        OperandKind::RegIMR => (21, 0, 0),
        OperandKind::RegF => (22, 0, 0),
        OperandKind::Reg3 => (23, 0, 0),
        OperandKind::Unknown(_) => (24, 0, 0),
        OperandKind::Placeholder => (25, 0, 0),
        OperandKind::ImemPtr => (26, 0, 0),
    }
}

/// One entry of the static opcode table, selected by input 600 (symbolic in the check).
#[no_mangle]
pub extern "C" fn harness_opcode_entry() -> i32 {
    let e = &OPCODES[(vin(600) & 0xFF) as usize];
    vout(0, e.opcode as u32);
    vout(1, e.kind as u32);
    vout(2, e.name.len() as u32);
    for (i, b) in e.name.bytes().enumerate().take(12) {
        vout(10 + i as u32, b as u32);
    }
    match e.cond {
        None => vout(3, 0),
        Some(c) => {
            vout(3, 1 + c.len() as u32);
            for (i, b) in c.bytes().enumerate().take(4) {
                vout(30 + i as u32, b as u32);
            }
        }
    }
    vout(4, match e.ops_reversed { None => 0, Some(false) => 1, Some(true) => 2 });
    vout(5, e.operands.len() as u32);
    for (i, o) in e.operands.iter().enumerate().take(6) {
        let (t, p, q) = operand_code(o);
        vout(40 + 3 * i as u32, t);
        vout(41 + 3 * i as u32, p);
        vout(42 + 3 * i as u32, q);
    }
    0
}

/// Public constants of the crate that duplicate Python-side definitions, and mask_for of every register.
#[no_mangle]
pub extern "C" fn harness_consts() -> i32 {
    use sc62015_core::memory as M;
    use sc62015_core::pce500 as P;
    let c: [(u32, u32); 28] = [
        (0, M::INTERNAL_MEMORY_START), (1, M::ADDRESS_MASK), (2, M::INTERNAL_ADDR_MASK), (3, M::EXTERNAL_SPACE as u32),
        (4, M::INTERNAL_SPACE as u32), (5, M::INTERNAL_RAM_START as u32), (6, M::INTERNAL_RAM_SIZE as u32),
        (10, M::IMEM_KOL_OFFSET), (11, M::IMEM_KOH_OFFSET), (12, M::IMEM_KIL_OFFSET), (13, M::IMEM_BP_OFFSET), (14, M::IMEM_PX_OFFSET),
        (15, M::IMEM_PY_OFFSET), (16, M::IMEM_UCR_OFFSET), (17, M::IMEM_USR_OFFSET), (18, M::IMEM_RXD_OFFSET), (19, M::IMEM_TXD_OFFSET),
        (20, M::IMEM_IMR_OFFSET), (21, M::IMEM_ISR_OFFSET), (22, M::IMEM_SCR_OFFSET), (23, M::IMEM_LCC_OFFSET), (24, M::IMEM_SSR_OFFSET),
        (30, P::ROM_RESET_VECTOR_ADDR), (31, P::ROM_WINDOW_START as u32), (32, P::ROM_WINDOW_LEN as u32), (33, P::SYSTEM_IMAGE_LEN as u32),
        (34, P::NO_RAM_WINDOW_START as u32), (35, P::NO_RAM_WINDOW_END as u32),
    ];
    for (i, v) in c.iter() {
        vout(*i, *v);
    }
    let regs = [RegName::A, RegName::B, RegName::BA, RegName::IL, RegName::IH, RegName::I, RegName::X, RegName::Y, RegName::U, RegName::S,
                RegName::F, RegName::PC, RegName::FC, RegName::FZ, RegName::IMR];
    for r in regs.iter() {
        vout(100 + reg_code(*r), mask_for(*r));
    }
    0
}

// ---------------------------------------------------------------------------------------------
// Interrupt controller (C12): one CoreRuntime::step from an arbitrary controller state.
// Inputs: 700..707 program bytes at PC (720); 708..710 interrupt vector bytes; 721 S, 722 F, 723 IMR,
// 724 ISR, 725 irq_pending, 726 halted, 727 off, 728 in_interrupt, 729 key_irq_latched,
// 730 timers enabled, 731/732 MTI/STI period, 733/734 next MTI/STI, 735 cycle count, 736 kb irq enabled,
// 737..746 ten bytes around S (s-5..s+4, seeded), 747 BA, 748 I.
use sc62015_core::CoreRuntime;

static mut IRQ_RT: *mut CoreRuntime = std::ptr::null_mut();

/// Symbolic run: preparation (fork-free) and the step are separate entries so that every path resumes
/// from a snapshot of the prepared machine; the native replay calls harness_irq (both in one).
#[no_mangle]
pub extern "C" fn harness_irq_prepare() -> i32 {
    let mut rt = Box::new(CoreRuntime::new());
    let pc = vin(720) & 0xFFFFF;
    let prog: Vec<u8> = (0..8u32).map(|i| vin(700 + i) as u8).collect();
    rt.memory.write_external_slice(pc as usize, &prog);
    let s = vin(721);
    if vin(749) != 0 {
        // native replay only: the symbolic run leaves external memory arbitrary (the vector and the ten bytes
        // around S are whatever the symbolic array holds there)
        for i in 0..3u32 {
            rt.memory.write_external_byte(0xFFFFA + i, vin(708 + i) as u8);
        }
        for i in 0..10u32 {
            rt.memory.write_external_byte(s.wrapping_sub(5).wrapping_add(i), vin(737 + i) as u8);
        }
    }
    rt.state.set_pc(pc);
    rt.state.set_reg(RegName::S, s);
    rt.state.set_reg(RegName::F, vin(722));
    rt.state.set_reg(RegName::BA, vin(747));
    rt.state.set_reg(RegName::I, vin(748));
    {
        // IMR / ISR are loaded as a block: write_internal_byte would run the IMR/ISR bit-watch hook (tracing bookkeeping
        // that branches on every changed bit)
        let mut blob = vec![0u8; 256];
        blob[0xFB] = vin(723) as u8;
        blob[0xFC] = vin(724) as u8;
        rt.memory.load_internal(&blob);
    }
    rt.state.set_reg(RegName::IMR, vin(723));
    rt.timer.irq_pending = vin(725) & 1 != 0;
    rt.state.set_halted(vin(726) & 1 != 0);
    if vin(727) & 1 != 0 {
        rt.state.set_power_state(sc62015_core::llama::state::PowerState::Off);
    }
    rt.timer.in_interrupt = vin(728) & 1 != 0;
    rt.timer.key_irq_latched = vin(729) & 1 != 0;
    rt.timer.enabled = vin(730) & 1 != 0;
    rt.timer.mti_period = vin(731) as u64;
    rt.timer.sti_period = vin(732) as u64;
    rt.timer.next_mti = vin(733) as u64;
    rt.timer.next_sti = vin(734) as u64;
    rt.timer.kb_irq_enabled = vin(736) & 1 != 0;
    unsafe {
        IRQ_RT = Box::into_raw(rt);
    }
    0
}

#[no_mangle]
pub extern "C" fn harness_irq_step() -> i32 {
    let rt: &mut CoreRuntime = unsafe { &mut *IRQ_RT };
    let s = vin(721);
    let r = rt.step(1);
    vout(0, r.is_ok() as u32);
    vout(1, rt.state.pc());
    vout(2, rt.state.get_reg(RegName::S));
    vout(3, rt.state.get_reg(RegName::F));
    vout(4, rt.memory.read_internal_byte(0xFB).unwrap_or(0) as u32);
    vout(5, rt.memory.read_internal_byte(0xFC).unwrap_or(0) as u32);
    vout(6, rt.timer.irq_pending as u32);
    vout(7, rt.timer.in_interrupt as u32);
    vout(8, rt.state.is_halted() as u32);
    vout(9, rt.state.is_off() as u32);
    for i in 0..10u32 {
        vout(30 + i, rt.memory.load(s.wrapping_sub(5).wrapping_add(i), 8).unwrap_or(0x100));
    }
    vout(20, rt.timer.irq_total);
    vout(21, rt.timer.key_irq_latched as u32);
    vout(15, rt.state.get_reg(RegName::IMR));
    vout(16, rt.instruction_count() as u32);
    vout(17, rt.timer.next_mti as u32);
    vout(18, rt.timer.next_sti as u32);
    vout(19, rt.cycle_count() as u32);
    0
}

#[no_mangle]
pub extern "C" fn harness_irq() -> i32 {
    harness_irq_prepare();
    harness_irq_step()
}

// ---------------------------------------------------------------------------------------------
// Virtual-time task scheduler (C18).  Up to two tasks, each sleeping a list of symbolic cycle counts and
// emitting one event per resumption, driven by run_for with a list of symbolic budgets.  The same task
// set is run twice, under two budget partitions (inputs 830.. and 840..), so that z3 can decide that
// wake-up cycles, order and delivered events do not depend on the partition.
// Inputs: 800 task count (concrete), 801/802 sleeps per task (concrete <= 3), 810+4*t+i sleep i of task t,
// 820/821 budget counts of run A / run B (concrete <= 4), 830+i / 840+i budgets.
// Outputs (64-bit): run r (0/1): 1000*(r+1) + seq -> (task*16 + step) << 32 | wake cycle low 32 bits, in wake order;
// 32-bit: 100*(r+1) + 3*b -> event code of budget b, +1 cycles_executed, +2 clock after; 150*(r+1) + b -> wake-ups so far.
use sc62015_core::async_driver::{current_cycle, emit_event, sleep_cycles, AsyncDriver, DriverEvent};
use std::cell::Cell;

thread_local! {
    static WAKE_SEQ: Cell<u32> = const { Cell::new(0) };
}

fn async_run(run: u32, budgets_at: u32, nbudgets: u32) {
    WAKE_SEQ.with(|c| c.set(0));
    let mut drv = AsyncDriver::new();
    let ntasks = vin(800);
    for t in 0..ntasks {
        let n = vin(801 + t);
        let d = [vin(810 + 4 * t) as u64, vin(811 + 4 * t) as u64, vin(812 + 4 * t) as u64];
        drv.spawn(async move {
            for i in 0..n {
                sleep_cycles(d[i as usize]).await;
                let seq = WAKE_SEQ.with(|c| {
                    let v = c.get();
                    c.set(v + 1);
                    v
                });
                vout64(1000 * (run + 1) + seq, (((t * 16 + i) as u64) << 32) | (current_cycle() & 0xFFFF_FFFF));
                emit_event(DriverEvent::User(t * 16 + i));
            }
        });
    }
    for b in 0..nbudgets {
        let r = drv.run_for(vin(budgets_at + b) as u64);
        let code = match r.event {
            DriverEvent::MaxCycles => 0xFFFF,
            DriverEvent::User(v) => v,
        };
        vout(100 * (run + 1) + 3 * b, code);
        vout(100 * (run + 1) + 3 * b + 1, r.cycles_executed as u32);
        vout(100 * (run + 1) + 3 * b + 2, drv.clock() as u32);
        vout(150 * (run + 1) + b, WAKE_SEQ.with(|c| c.get()));
    }
}

#[no_mangle]
pub extern "C" fn harness_async() -> i32 {
    async_run(0, 830, vin(820));
    async_run(1, 840, vin(821));
    0
}

/// Entry-point dispatch for the native replay binary.
pub fn dispatch(name: &str) -> i32 {
    match name {
        "harness_execute" => harness_execute(),
        "harness_execute_hidden" => harness_execute_hidden(),
        "harness_regfile" => harness_regfile(),
        "harness_timer" => harness_timer(),
        "harness_timer_reset" => harness_timer_reset(),
        "harness_lcd_op" => harness_lcd_op(),
        "harness_lcd_pixels" => harness_lcd_pixels(),
        "harness_mem" => harness_mem(),
        "harness_async" => harness_async(),
        "harness_irq" => harness_irq(),
        "harness_opcode_entry" => harness_opcode_entry(),
        "harness_consts" => harness_consts(),
        "harness_kb" => harness_kb(),
        "harness_kb_native" => harness_kb_native(),
        _ => -999,
    }
}
