"""Symbolic interpreter for the LLVM IR of the Rust core (see DESIGN.md section 2.2).

SSA values are Python ints (concrete, unsigned, normalised to their width) or z3
bit-vector terms; memory is a flat byte-addressed store with concrete addresses; a branch
or switch on a symbolic value asks the pysym engine (fork by re-execution, DFS); a symbolic
*address* is concretised by forking over its feasible values (cap).  libc and the harness
hooks are Python stubs (listed in STUBS).
"""
from __future__ import annotations

import sys

import z3

from engines.pysym import core
from . import ir as IR

sys.setrecursionlimit(20000)

PTR_BITS = 64
M64 = (1 << 64) - 1


class RustPanic(Exception):
    """The Rust code panicked / aborted on this path."""


class Unsupported(Exception):
    """IR construct or external the interpreter does not model (harness error)."""


class StepLimit(core.PysymAbort):
    pass


def mask(n):
    return (1 << n) - 1


def is_sym(v):
    return isinstance(v, z3.ExprRef)


def bvv(v, n):
    return z3.BitVecVal(v, n)


def to_term(v, n):
    return v if is_sym(v) else z3.BitVecVal(v, n)


def to_signed(v, n):
    return v - (1 << n) if v >> (n - 1) else v


class Layout:
    def __init__(self, mod):
        self.mod = mod
        self._size = {}

    def resolve(self, t):
        while t[0] == "named":
            t = self.mod.types[t[1]]
        return t

    def size_align(self, t):
        key = t
        r = self._size.get(key)
        if r is not None:
            return r
        t0 = self.resolve(t)
        k = t0[0]
        if k == "int":
            b = t0[1]
            store = (b + 7) // 8
            al = 1
            while al < store and al < 8:
                al *= 2
            if b > 64:
                al = 16
            size = ((store + al - 1) // al) * al
            r = (size, al)
        elif k == "ptr":
            r = (8, 8)
        elif k == "array":
            s, a = self.size_align(t0[2])
            r = (s * t0[1], a)
        elif k == "vector":
            s, a = self.size_align(t0[2])
            tot = s * t0[1]
            al = 1
            while al < tot:
                al *= 2
            r = (tot, min(al, 16) if tot else 1)
        elif k == "struct":
            off = 0
            al = 1
            for e in t0[1]:
                s, a = self.size_align(e)
                if not t0[2]:
                    off = (off + a - 1) // a * a
                    al = max(al, a)
                off += s
            if not t0[2]:
                off = (off + al - 1) // al * al
            r = (off, al)
        elif k == "float":
            r = {"float": (4, 4), "double": (8, 8), "half": (2, 2)}.get(t0[1], (16, 16))
        elif k == "void":
            r = (0, 1)
        else:
            raise Unsupported(f"size of type {t0}")
        self._size[key] = r
        return r

    def size(self, t):
        return self.size_align(t)[0]

    def field_offset(self, t, idx):
        t0 = self.resolve(t)
        off = 0
        for i, e in enumerate(t0[1]):
            s, a = self.size_align(e)
            if not t0[2]:
                off = (off + a - 1) // a * a
            if i == idx:
                return off, e
            off += s
        raise Unsupported("field index out of range")

    def store_bits(self, t):
        t0 = self.resolve(t)
        if t0[0] == "int":
            return t0[1]
        if t0[0] == "ptr":
            return 64
        raise Unsupported(f"store_bits of {t0}")


GLOBAL_BASE = 0x10000000
FUNC_BASE = 0x0F000000
HEAP_BASE = 0x20000000
STACK_BASE = 0x70000000

PANIC_MARKERS = ("9panicking", "13unwrap_failed", "16slice_index_fail", "16slice_error_fail", "18handle_alloc_error", "17capacity_overflow",
                 "22panic_already_borrowed", "26panic_already_mutably_borrowed", "17len_mismatch_fail", "7process5abort", "10rust_panic", "11begin_panic",
                 "13expect_failed", "19slice_error_fail_rt", "22panic_on_ord_violation")


class Image:
    """Parsed module + memory image of its globals (shared, read-only template)."""

    def __init__(self, mod):
        self.mod = mod
        self.layout = Layout(mod)
        self.gaddr = {}
        self.faddr = {}
        self.fn_at = {}
        self.mem0 = {}
        a = FUNC_BASE
        for name in mod.functions:
            self.faddr[name] = a
            self.fn_at[a] = name
            a += 16
        a = GLOBAL_BASE
        for name, g in mod.globals.items():
            size, al = self.layout.size_align(g["type"])
            al = max(al, g["align"], 1)
            a = (a + al - 1) // al * al
            self.gaddr[name] = a
            a += max(size, 1)
        self.global_end = a
        for name, g in mod.globals.items():
            if g["init"] is not None:
                self._init(self.gaddr[name], g["type"], g["init"])
        self.panic_fns = {n for n in mod.functions if any(m in n for m in PANIC_MARKERS)}

    def sym_addr(self, name):
        if name in self.gaddr:
            return self.gaddr[name]
        if name in self.faddr:
            return self.faddr[name]
        if name in self.mod.aliases:
            return self.const_value(IR.PTR, self.mod.aliases[name])
        raise Unsupported(f"unknown symbol @{name}")

    def const_value(self, t, v):
        k = v[0]
        if k == "int":
            t0 = self.layout.resolve(t)
            return v[1] & mask(t0[1]) if t0[0] == "int" else v[1]
        if k == "global":
            return self.sym_addr(v[1])
        if k in ("null", "zero", "undef", "none"):
            return 0
        if k == "float":
            import struct as _st

            t0 = self.layout.resolve(t)
            txt = v[1]
            if txt.startswith("0x"):
                return int(txt, 16)  # LLVM prints doubles (and floats, widened) as raw double bits
            bits = _st.unpack("<Q", _st.pack("<d", float(txt)))[0]
            if t0[0] == "float" and t0[1] == "float":
                bits = _st.unpack("<I", _st.pack("<f", float(txt)))[0]
            return bits
        if k == "cgep":
            base = self.const_value(IR.PTR, v[2])
            return (base + self._gep_offset_const(v[1], v[3])) & M64
        if k == "ccast":
            return self.const_value(v[2], v[3]) & (mask(self.layout.store_bits(v[4])) if self.layout.resolve(v[4])[0] in ("int", "ptr") else M64)
        if k == "cbin":
            a = self.const_value(v[2], v[3])
            b = self.const_value(v[2], v[4])
            n = self.layout.store_bits(v[2])
            return _binop_int(v[1], a, b, n)
        raise Unsupported(f"constant {v}")

    def _gep_offset_const(self, bt, idx):
        off = 0
        t = bt
        first = True
        for (it, iv) in idx:
            i = self.const_value(it, iv)
            i = to_signed(i, self.layout.store_bits(it))
            if first:
                off += i * self.layout.size(t)
                first = False
                continue
            t0 = self.layout.resolve(t)
            if t0[0] == "struct":
                o, t = self.layout.field_offset(t0, i)
                off += o
            else:
                t = t0[2]
                off += i * self.layout.size(t)
        return off

    def _init(self, addr, t, v):
        t0 = self.layout.resolve(t)
        k = v[0]
        mem = self.mem0
        if k in ("zero", "undef"):
            return  # absent cells read as 0
        if k == "cstr":
            for i, b in enumerate(v[1]):
                if b:
                    mem[addr + i] = b
            return
        if k == "agg":
            if t0[0] == "struct":
                off = 0
                for (et, ev) in v[1]:
                    s, a = self.layout.size_align(et)
                    if not t0[2]:
                        off = (off + a - 1) // a * a
                    self._init(addr + off, et, ev)
                    off += s
            else:
                es = self.layout.size(t0[2])
                for i, (et, ev) in enumerate(v[1]):
                    self._init(addr + i * es, et, ev)
            return
        if k == "splat":
            es = self.layout.size(t0[2])
            for i in range(t0[1]):
                self._init(addr + i * es, t0[2], v[1])
            return
        val = self.const_value(t, v)
        n = self.layout.size(t) if t0[0] == "float" else (self.layout.store_bits(t) + 7) // 8
        for i in range(n):
            b = (val >> (8 * i)) & 0xFF
            if b:
                mem[addr + i] = b


def _binop_int(op, a, b, n):
    m = mask(n)
    if op == "add":
        return (a + b) & m
    if op == "sub":
        return (a - b) & m
    if op == "mul":
        return (a * b) & m
    if op == "and":
        return a & b
    if op == "or":
        return a | b
    if op == "xor":
        return a ^ b
    if op == "shl":
        return (a << b) & m if b < n else 0
    if op == "lshr":
        return a >> b if b < n else 0
    if op == "ashr":
        return (to_signed(a, n) >> min(b, n - 1)) & m
    if op == "udiv":
        if b == 0:
            raise RustPanic("udiv by zero")
        return a // b
    if op == "urem":
        if b == 0:
            raise RustPanic("urem by zero")
        return a % b
    if op == "sdiv":
        if b == 0:
            raise RustPanic("sdiv by zero")
        sa, sb = to_signed(a, n), to_signed(b, n)
        q = abs(sa) // abs(sb)
        return (q if (sa < 0) == (sb < 0) else -q) & m
    if op == "srem":
        if b == 0:
            raise RustPanic("srem by zero")
        sa, sb = to_signed(a, n), to_signed(b, n)
        r = abs(sa) % abs(sb)
        return (r if sa >= 0 else -r) & m
    raise Unsupported(op)


def _binop_sym(op, a, b, n):
    ta, tb = to_term(a, n), to_term(b, n)
    if op == "add":
        return ta + tb
    if op == "sub":
        return ta - tb
    if op == "mul":
        return ta * tb
    if op == "and":
        return ta & tb
    if op == "or":
        return ta | tb
    if op == "xor":
        return ta ^ tb
    if op == "shl":
        return ta << tb
    if op == "lshr":
        return z3.LShR(ta, tb)
    if op == "ashr":
        return ta >> tb
    if op == "udiv":
        return z3.UDiv(ta, tb)
    if op == "urem":
        return z3.URem(ta, tb)
    if op == "sdiv":
        return ta / tb
    if op == "srem":
        return z3.SRem(ta, tb)
    raise Unsupported(op)


_ICMP_INT = {
    "eq": lambda a, b, n: a == b, "ne": lambda a, b, n: a != b,
    "ugt": lambda a, b, n: a > b, "uge": lambda a, b, n: a >= b, "ult": lambda a, b, n: a < b, "ule": lambda a, b, n: a <= b,
    "sgt": lambda a, b, n: to_signed(a, n) > to_signed(b, n), "sge": lambda a, b, n: to_signed(a, n) >= to_signed(b, n),
    "slt": lambda a, b, n: to_signed(a, n) < to_signed(b, n), "sle": lambda a, b, n: to_signed(a, n) <= to_signed(b, n),
}
_ICMP_SYM = {
    "eq": lambda a, b: a == b, "ne": lambda a, b: a != b,
    "ugt": z3.UGT, "uge": z3.UGE, "ult": z3.ULT, "ule": z3.ULE,
    "sgt": lambda a, b: a > b, "sge": lambda a, b: a >= b, "slt": lambda a, b: a < b, "sle": lambda a, b: a <= b,
}

ONE1 = None


_VS_MEMO = {}
_VS_CAP = 1024


def value_set(t):
    """Over-approximate set of values of BV term t, computed syntactically (no solver); None if too large/unknown."""
    k = t.get_id()
    if k in _VS_MEMO:
        return _VS_MEMO[k][1]
    r = _value_set(t)
    _VS_MEMO[k] = (t, r)
    if len(_VS_MEMO) > 200000:
        _VS_MEMO.clear()
    return r


def _value_set(t):
    if not z3.is_bv(t):
        return None
    w = t.size()
    m = (1 << w) - 1
    if z3.is_bv_value(t):
        return frozenset((t.as_long(),))
    d = t.decl().kind()
    ch = t.children()
    if not ch:
        return frozenset(range(1 << w)) if w <= 8 else None
    if d == z3.Z3_OP_ITE:
        a, b = value_set(ch[1]), value_set(ch[2])
        if a is None or b is None or len(a) + len(b) > _VS_CAP:
            return None
        return a | b
    if d == z3.Z3_OP_SELECT:
        return frozenset(range(1 << w)) if w <= 8 else None
    sets = [value_set(c) for c in ch]
    if any(x is None for x in sets):
        # a few ops bound the result regardless of an unknown operand
        if d == z3.Z3_OP_BAND:
            known = [x for x in sets if x is not None]
            if known and all(len(x) == 1 for x in known):
                mk = m
                for x in known:
                    mk &= next(iter(x))
                if bin(mk).count("1") <= 10:
                    bits = [i for i in range(w) if mk >> i & 1]
                    out = set()
                    for c in range(1 << len(bits)):
                        out.add(sum(((c >> j) & 1) << b for j, b in enumerate(bits)))
                    return frozenset(out)
        if d == z3.Z3_OP_BUREM or d == z3.Z3_OP_BUREM_I:
            if sets[1] is not None and len(sets[1]) == 1 and 0 < next(iter(sets[1])) <= _VS_CAP:
                return frozenset(range(next(iter(sets[1]))))
        if d == z3.Z3_OP_ZERO_EXT:
            return None
        return None
    n = 1
    for x in sets:
        n *= len(x)
    if n > 65536:
        return None

    def fold(f):
        acc = sets[0]
        for x in sets[1:]:
            acc = frozenset(f(a, b) & m for a in acc for b in x)
            if len(acc) > _VS_CAP:
                return None
        return acc

    if d == z3.Z3_OP_BADD:
        return fold(lambda a, b: a + b)
    if d == z3.Z3_OP_BMUL:
        return fold(lambda a, b: a * b)
    if d == z3.Z3_OP_BSUB:
        return fold(lambda a, b: a - b)
    if d == z3.Z3_OP_BAND:
        return fold(lambda a, b: a & b)
    if d == z3.Z3_OP_BOR:
        return fold(lambda a, b: a | b)
    if d == z3.Z3_OP_BXOR:
        return fold(lambda a, b: a ^ b)
    if d == z3.Z3_OP_BSHL:
        return fold(lambda a, b: a << b if b < w else 0)
    if d == z3.Z3_OP_BLSHR:
        return fold(lambda a, b: a >> b if b < w else 0)
    if d in (z3.Z3_OP_BUREM, z3.Z3_OP_BUREM_I):
        return fold(lambda a, b: a % b if b else a)
    if d in (z3.Z3_OP_BUDIV, z3.Z3_OP_BUDIV_I):
        return fold(lambda a, b: a // b if b else m)
    if d == z3.Z3_OP_ZERO_EXT:
        return sets[0]
    if d == z3.Z3_OP_SIGN_EXT:
        cw = ch[0].size()
        return frozenset((a | (m & ~((1 << cw) - 1))) if a >> (cw - 1) & 1 else a for a in sets[0])
    if d == z3.Z3_OP_EXTRACT:
        hi, lo = t.params()
        out = frozenset((a >> lo) & ((1 << (hi - lo + 1)) - 1) for a in sets[0])
        return out
    if d == z3.Z3_OP_CONCAT:
        acc = sets[0]
        for x, c in zip(sets[1:], ch[1:]):
            cw = c.size()
            acc = frozenset((a << cw) | b for a in acc for b in x)
            if len(acc) > _VS_CAP:
                return None
        return acc
    if d == z3.Z3_OP_BNOT:
        return frozenset(~a & m for a in sets[0])
    if d == z3.Z3_OP_BNEG:
        return frozenset(-a & m for a in sets[0])
    return None


class Machine:
    """One execution (one path) of a harness entry point."""

    STEP_LIMIT = 3_000_000

    def __init__(self, image: Image, hooks=None):
        self.img = image
        self.mod = image.mod
        self.layout = image.layout
        self.mem = dict(image.mem0)
        self.heap = HEAP_BASE
        self.heap_sizes = {}
        self.sp = STACK_BASE
        self.steps = 0
        self.hooks = hooks or {}
        self.errno_addr = None
        self.tls_keys = {}
        self.depth = 0
        self.trace_calls = False
        self.fn_counts = {}
        self.arrays = []  # [base, end, z3 Array(BV64 -> BV8)] objects in array mode (symbolic indices)
        self.allocas = []  # (base, size) of live stack allocations
        self.array_mode = False  # symbolic pointers: resolve to an object kept in array mode (True) or fork over the feasible addresses (False)
        self.merge_tables = False  # table lookups through a symbolic index: merge into if-then-else (True) or fork per value (False)
        self.symbolic_alloc = {}  # allocation size -> name: heap blocks of that size start with arbitrary (symbolic) contents
        self.sym_alloc_seq = 0

    def snapshot(self):
        """State after a (fork-free) run of a preparation entry point; resume() starts a new path from it."""
        return {"mem": dict(self.mem), "heap": self.heap, "heap_sizes": dict(self.heap_sizes), "arrays": [list(o) for o in self.arrays],
                "errno_addr": self.errno_addr, "tls_keys": dict(self.tls_keys), "steps": self.steps, "sym_alloc_seq": self.sym_alloc_seq}

    def adopt_array(self, base, size, sel):
        """Put [base, base+size) into array mode; sel(offset BV64 term) -> BV8 term gives the contents; flat cells there are dropped."""
        x = z3.BitVec("__i", 64)
        self.arrays.append([base, base + size, z3.Lambda([x], sel(x - z3.BitVecVal(base, 64)))])
        for a in range(base, base + size):
            self.mem.pop(a, None)

    def resume(self, snap):
        self.mem = dict(snap["mem"])
        self.heap = snap["heap"]
        self.heap_sizes = dict(snap["heap_sizes"])
        self.arrays = [list(o) for o in snap["arrays"]]
        self.errno_addr = snap["errno_addr"]
        self.tls_keys = dict(snap["tls_keys"])
        self.sym_alloc_seq = snap["sym_alloc_seq"]
        self.sp = STACK_BASE
        self.allocas = []

    # ---------------------------------------------------------------- memory
    def _array_for(self, addr):
        for obj in self.arrays:
            if obj[0] <= addr < obj[1]:
                return obj
        return None

    def load_bytes(self, addr, n):
        if self.arrays:
            obj = self._array_for(addr)
            if obj is not None:
                parts = [z3.Select(obj[2], z3.BitVecVal(addr + i, 64)) for i in range(n)]
                t = z3.simplify(z3.Concat(*reversed(parts)) if n > 1 else parts[0])
                return t.as_long() if z3.is_bv_value(t) else t
        mem = self.mem
        cells = [mem.get(addr + i, 0) for i in range(n)]
        if all(type(c) is int for c in cells):
            v = 0
            for i, c in enumerate(cells):
                v |= c << (8 * i)
            return v
        c0 = cells[0]
        if type(c0) is tuple and c0[1] == 0 and c0[0].size() == 8 * n:
            t = c0[0]
            ok = True
            for i in range(1, n):
                c = cells[i]
                if type(c) is not tuple or c[0] is not t or c[1] != i:
                    ok = False
                    break
            if ok:
                return t
        parts = []
        for c in cells:
            if type(c) is int:
                parts.append(z3.BitVecVal(c, 8))
            elif type(c) is tuple:
                parts.append(z3.Extract(8 * c[1] + 7, 8 * c[1], c[0]))
            else:
                parts.append(c)
        if n == 1:
            return parts[0]
        return z3.simplify(z3.Concat(*reversed(parts)))

    def store_bytes(self, addr, v, n):
        if self.arrays:
            obj = self._array_for(addr)
            if obj is not None:
                tv = to_term(v, 8 * n) if type(v) is int or v.size() == 8 * n else (z3.ZeroExt(8 * n - v.size(), v) if v.size() < 8 * n else z3.Extract(8 * n - 1, 0, v))
                for i in range(n):
                    obj[2] = z3.Store(obj[2], z3.BitVecVal(addr + i, 64), z3.Extract(8 * i + 7, 8 * i, tv))
                return
        mem = self.mem
        if type(v) is int:
            for i in range(n):
                mem[addr + i] = (v >> (8 * i)) & 0xFF
            return
        bits = v.size()
        if bits != 8 * n:
            v = z3.ZeroExt(8 * n - bits, v) if bits < 8 * n else z3.Extract(8 * n - 1, 0, v)
        sv = z3.simplify(v)
        if z3.is_bv_value(sv):
            val = sv.as_long()
            for i in range(n):
                mem[addr + i] = (val >> (8 * i)) & 0xFF
            return
        for i in range(n):
            mem[addr + i] = (sv, i)

    def find_object(self, a):
        """(base, size) of the allocation containing concrete address a."""
        for obj in self.arrays:
            if obj[0] <= a < obj[1]:
                return obj[0], obj[1] - obj[0]
        for base, size in reversed(self.allocas):
            if base <= a < base + size:
                return base, size
        if a >= HEAP_BASE:
            best = None
            for base, size in self.heap_sizes.items():
                if base <= a < base + max(size, 1) and (best is None or base > best[0]):
                    best = (base, size)
            if best:
                return best
        if GLOBAL_BASE <= a < self.img.global_end:
            for name, base in self.img.gaddr.items():
                size = self.layout.size(self.mod.globals[name]["type"])
                if base <= a < base + max(size, 1):
                    return base, size
        return None

    def to_array_mode(self, base, size):
        for obj in self.arrays:
            if obj[0] == base:
                return obj
        arr = z3.K(z3.BitVecSort(64), z3.BitVecVal(0, 8))
        mem = self.mem
        if size <= 65536:
            keys = range(base, base + size)
        else:
            keys = [k for k in mem if base <= k < base + size]
        for a in keys:
            c = mem.get(a)
            if c is None or c == 0:
                continue
            if type(c) is int:
                t = z3.BitVecVal(c, 8)
            elif type(c) is tuple:
                t = z3.Extract(8 * c[1] + 7, 8 * c[1], c[0])
            else:
                t = c
            arr = z3.Store(arr, z3.BitVecVal(a, 64), t)
        obj = [base, base + size, arr]
        self.arrays.append(obj)
        return obj

    def sym_access(self, p, n):
        """Symbolic address p (BV64) accessed for n bytes -> the array-mode object it points into
        (KLEE-style single-object resolution; other feasible objects are reached by forking)."""
        eng = core.engine()
        sp = z3.simplify(p)
        if z3.is_bv_value(sp):
            return sp.as_long(), None
        # the candidate object is chosen by the SMALLEST feasible address (binary search with the solver): the choice must not
        # depend on which model the solver happens to return, or a re-execution of the same decision prefix would diverge
        if not eng._check():
            raise core.Inconclusive("path condition became unsatisfiable")
        cur = eng.solver.model().eval(sp, model_completion=True).as_long()
        lo_ = None
        for _ in range(12):
            # descend through models: usually the pointer has a handful of feasible values
            if not eng._check(z3.ULT(sp, z3.BitVecVal(cur, 64))):
                lo_ = cur
                break
            cur = eng.solver.model().eval(sp, model_completion=True).as_long()
        if lo_ is None:
            lo_, hi_ = 0, cur
            while lo_ < hi_:
                mid = (lo_ + hi_) // 2
                if eng._check(z3.ULE(sp, z3.BitVecVal(mid, 64))):
                    hi_ = min(mid, eng.solver.model().eval(sp, model_completion=True).as_long())
                else:
                    lo_ = mid + 1
        a0 = lo_
        ao = self._array_for(a0)
        found = (ao[0], ao[1] - ao[0]) if ao is not None else self.find_object(a0)
        if found is None:
            raise Unsupported(f"symbolic pointer may point outside every allocation (sample {a0:#x})")
        base, size = found
        inside = z3.And(z3.UGE(sp, z3.BitVecVal(base, 64)), z3.ULE(sp + z3.BitVecVal(n, 64), z3.BitVecVal(base + size, 64)),
                        z3.ULE(sp, sp + z3.BitVecVal(n, 64)))
        if eng.decide(inside):
            return sp, (ao if ao is not None else self.to_array_mode(base, size))
        # the pointer leaves that object on this path: try again (another object / out of bounds)
        return self.sym_access(p, n)

    def _merge_candidates(self, p, n):
        """Small syntactic value set of the symbolic pointer p, every candidate inside flat (non array-mode)
        mapped memory -> (simplified pointer, sorted candidates); else None.  Sound: the set over-approximates."""
        if not self.merge_tables:
            return None
        sp = z3.simplify(p)
        if z3.is_bv_value(sp):
            return None
        vs = value_set(sp)
        if vs is None or len(vs) > 1024:
            return None
        if self.arrays:
            lo, hi = min(vs), max(vs)
            for obj in self.arrays:
                if obj[0] <= lo and hi + n <= obj[1]:
                    return sp, obj  # every candidate inside one array-mode object: index it directly
        keep = []
        for a in sorted(vs):
            for obj in self.arrays:
                if obj[0] <= a < obj[1]:
                    return None
            f = self.find_object(a)
            if f is None or a + n > f[0] + f[1]:
                # not a valid location: fine if the path condition excludes it (the value set over-approximates), else give up
                if core.engine()._check(sp == z3.BitVecVal(a, 64)):
                    return None
                continue
            keep.append(a)
        if not keep:
            return None
        return sp, keep

    def load_sym(self, p, t):
        t0 = self.layout.resolve(t)
        if t0[0] not in ("int", "ptr") or not (self.array_mode or self.arrays):
            return self.load_typed(self.resolve_addr(p), t)
        bits = t0[1] if t0[0] == "int" else 64
        n = (bits + 7) // 8
        mc = self._merge_candidates(p, n)
        if mc is not None and any(mc[1] is o for o in self.arrays):
            sp, obj = mc
            parts = [z3.Select(obj[2], sp + z3.BitVecVal(i, 64)) for i in range(n)]
            v = z3.Concat(*reversed(parts)) if n > 1 else parts[0]
            return z3.Extract(bits - 1, 0, v) if bits % 8 else v
        if mc is not None:
            # table lookup with few possible addresses: merge into an if-then-else chain instead of forking
            sp, cands = mc
            vals = [to_term(self.load_typed(a, t), bits) for a in cands]
            r = vals[-1]
            for a, v in zip(reversed(cands[:-1]), reversed(vals[:-1])):
                r = z3.If(sp == z3.BitVecVal(a, 64), v, r)
            return r
        a, obj = self.sym_access(p, n)
        if obj is None:
            return self.load_typed(a, t)
        parts = [z3.Select(obj[2], a + z3.BitVecVal(i, 64)) for i in range(n)]
        v = z3.Concat(*reversed(parts)) if n > 1 else parts[0]
        return z3.Extract(bits - 1, 0, v) if bits % 8 else v

    def store_sym(self, p, t, v):
        t0 = self.layout.resolve(t)
        if t0[0] not in ("int", "ptr") or not (self.array_mode or self.arrays):
            return self.store_typed(self.resolve_addr(p), t, v)
        bits = t0[1] if t0[0] == "int" else 64
        n = (bits + 7) // 8
        mc = self._merge_candidates(p, n)
        if mc is not None and any(mc[1] is o for o in self.arrays):
            sp, obj = mc
            tv = to_term(v, bits)
            if bits % 8:
                tv = z3.ZeroExt(8 * n - bits, tv)
            for i in range(n):
                obj[2] = z3.Store(obj[2], sp + z3.BitVecVal(i, 64), z3.Extract(8 * i + 7, 8 * i, tv))
            return
        if mc is not None:
            sp, cands = mc
            tv = to_term(v, bits)
            for a in cands:
                old = to_term(self.load_typed(a, t), bits)
                self.store_typed(a, t, z3.If(sp == z3.BitVecVal(a, 64), tv, old))
            return
        a, obj = self.sym_access(p, n)
        if obj is None:
            return self.store_typed(a, t, v)
        tv = to_term(v, bits)
        if bits % 8:
            tv = z3.ZeroExt(8 * n - bits, tv)
        for i in range(n):
            obj[2] = z3.Store(obj[2], a + z3.BitVecVal(i, 64), z3.Extract(8 * i + 7, 8 * i, tv))

    def resolve_addr(self, p):
        if type(p) is int:
            return p
        sp = z3.simplify(p)
        if z3.is_bv_value(sp):
            return sp.as_long()
        # symbolic address: fork over its feasible values
        s = core.SymInt(z3.ZeroExt(64 - sp.size(), sp) if sp.size() < 64 else sp, 0, (1 << 62) - 1)
        return core.engine().concretize(s) & M64

    def alloc_stack(self, size, align):
        a = (self.sp + align - 1) // align * align
        self.sp = a + max(size, 1)
        self.allocas.append((a, size))
        return a

    def malloc(self, size, align=16, zero=False):
        if is_sym(size):
            size = self.resolve_addr(size)
        a = (self.heap + align - 1) // align * align
        self.heap = a + max(size, 1)
        self.heap_sizes[a] = size
        name = self.symbolic_alloc.get(size)
        if name is not None:
            # this block starts with arbitrary contents: array mode over a fresh z3 array, indexed by offset
            self.sym_alloc_seq += 1
            base_arr = z3.Array(name if self.sym_alloc_seq == 1 or not name.endswith("#") else f"{name}{self.sym_alloc_seq}", z3.BitVecSort(64), z3.BitVecSort(8))
            # index by absolute address: shift the named array by the block base
            x = z3.BitVec("__i", 64)
            arr = z3.Lambda([x], z3.Select(base_arr, x - z3.BitVecVal(a, 64)))
            self.arrays.append([a, a + size, arr])
            self.sym_bases = getattr(self, "sym_bases", {})
            self.sym_bases[name] = a
        return a

    # ---------------------------------------------------------------- values
    def val(self, frame, t, v):
        k = v[0]
        if k == "local":
            return frame[v[1]]
        if k == "int":
            t0 = t if t[0] != "named" else self.layout.resolve(t)
            return v[1] & mask(t0[1]) if t0[0] == "int" else v[1]
        if k == "global":
            return self.img.sym_addr(v[1])
        if k in ("null", "undef", "none"):
            return self.zero_of(t)
        if k == "zero":
            return self.zero_of(t)
        if k == "agg":
            return [self.val(frame, et, ev) for (et, ev) in v[1]]
        if k == "splat":
            t0 = self.layout.resolve(t)
            e = self.val(frame, t0[2], v[1])
            return [e] * t0[1]
        return self.img.const_value(t, v)

    def zero_of(self, t):
        t0 = self.layout.resolve(t)
        if t0[0] in ("int", "ptr"):
            return 0
        if t0[0] == "struct":
            return [self.zero_of(e) for e in t0[1]]
        if t0[0] in ("array", "vector"):
            return [self.zero_of(t0[2]) for _ in range(t0[1])]
        return 0

    def load_typed(self, addr, t):
        t0 = self.layout.resolve(t)
        k = t0[0]
        if k == "int":
            n = (t0[1] + 7) // 8
            v = self.load_bytes(addr, n)
            if t0[1] % 8:
                v = v & mask(t0[1]) if type(v) is int else z3.Extract(t0[1] - 1, 0, v)
            return v
        if k == "ptr":
            return self.load_bytes(addr, 8)
        if k == "struct":
            out = []
            off = 0
            for e in t0[1]:
                s, a = self.layout.size_align(e)
                if not t0[2]:
                    off = (off + a - 1) // a * a
                out.append(self.load_typed(addr + off, e))
                off += s
            return out
        if k == "vector":
            e0 = self.layout.resolve(t0[2])
            if e0[0] == "int" and e0[1] % 8:
                nb = e0[1] * t0[1]
                return self.bitcast_vec(("int", nb), self.load_bytes(addr, (nb + 7) // 8), t0)
        if k in ("array", "vector"):
            es = self.layout.size(t0[2])
            return [self.load_typed(addr + i * es, t0[2]) for i in range(t0[1])]
        if k == "float":
            return self.load_bytes(addr, self.layout.size(t0))  # raw bits; no float arithmetic is modelled
        raise Unsupported(f"load of {t0}")

    def store_typed(self, addr, t, v):
        t0 = self.layout.resolve(t)
        k = t0[0]
        if k == "int":
            n = (t0[1] + 7) // 8
            if t0[1] % 8 and is_sym(v):
                v = z3.ZeroExt(8 * n - t0[1], v)
            self.store_bytes(addr, v, n)
            return
        if k == "ptr":
            self.store_bytes(addr, v, 8)
            return
        if k == "struct":
            off = 0
            for e, ev in zip(t0[1], v):
                s, a = self.layout.size_align(e)
                if not t0[2]:
                    off = (off + a - 1) // a * a
                self.store_typed(addr + off, e, ev)
                off += s
            return
        if k == "vector":
            e0 = self.layout.resolve(t0[2])
            if e0[0] == "int" and e0[1] % 8:
                # sub-byte elements (<N x i1> masks) are stored bit-packed
                nb = e0[1] * t0[1]
                self.store_bytes(addr, self.bitcast_vec(t0, v, ("int", nb)), (nb + 7) // 8)
                return
        if k in ("array", "vector"):
            es = self.layout.size(t0[2])
            for i, ev in enumerate(v):
                self.store_typed(addr + i * es, t0[2], ev)
            return
        if k == "float":
            self.store_bytes(addr, v, self.layout.size(t0))
            return
        raise Unsupported(f"store of {t0}")

    # ---------------------------------------------------------------- decisions
    def truth(self, c):
        """i1 value -> Python bool (forking through the engine when symbolic)."""
        if type(c) is int:
            return bool(c & 1)
        return core.engine().decide(c == z3.BitVecVal(1, 1))

    # ---------------------------------------------------------------- calls
    def call(self, name, args):
        fn = self.mod.functions.get(name)
        if fn is None or not fn.defined:
            return self.external(name, args)
        if name in self.img.panic_fns:
            raise RustPanic(name)
        return self.run(fn, args)

    def external(self, name, args):
        h = self.hooks.get(name)
        if h is not None:
            return h(self, *args)
        f = STUBS.get(name)
        if f is not None:
            return f(self, *args)
        if name.startswith("llvm."):
            return self.intrinsic(name, args)
        raise Unsupported(f"external function {name}")

    def intrinsic(self, name, args):
        base = name.split(".")
        op = base[1]
        if op in ("lifetime", "assume", "experimental", "dbg", "prefetch", "donothing"):
            return None
        if op == "x86":
            return None
        if op in ("memcpy", "memmove"):
            n = self.resolve_addr(args[2])
            if is_sym(args[0]) and not is_sym(args[1]) and n <= 256:
                mc = self._merge_candidates(args[0], n)
                if mc is not None:
                    # block copy to a table slot chosen by symbolic state: merge over the possible slots instead of forking
                    sp, where = mc
                    vals = [to_term(self.load_bytes(args[1] + i, 1), 8) for i in range(n)]
                    if any(where is o for o in self.arrays):
                        for i, v in enumerate(vals):
                            where[2] = z3.Store(where[2], sp + z3.BitVecVal(i, 64), v)
                    else:
                        for a in where:
                            hit = sp == z3.BitVecVal(a, 64)
                            for i, v in enumerate(vals):
                                old = to_term(self.load_bytes(a + i, 1), 8)
                                self.store_bytes(a + i, z3.simplify(z3.If(hit, v, old)), 1)
                    return None
            dst, src = self.resolve_addr(args[0]), self.resolve_addr(args[1])
            if self.arrays and (self._array_for(src) is not None or self._array_for(dst) is not None):
                so, do = self._array_for(src), self._array_for(dst)
                if so is not None and do is not None and so is not do and src == so[0] and dst == do[0] and n == so[1] - so[0] == do[1] - do[0]:
                    # whole-object copy between two array-mode blocks: one shifted view instead of n stores
                    x = z3.BitVec("__i", 64)
                    do[2] = z3.Lambda([x], z3.Select(so[2], x - z3.BitVecVal(dst, 64) + z3.BitVecVal(src, 64)))
                    return None
                vals = [self.load_bytes(src + i, 1) for i in range(n)]
                for i, v in enumerate(vals):
                    self.store_bytes(dst + i, v, 1)
                return None
            mem = self.mem
            cells = [mem.get(src + i, 0) for i in range(n)]
            for i, c in enumerate(cells):
                mem[dst + i] = c
            return None
        if op == "memset":
            dst, b, n = self.resolve_addr(args[0]), args[1], self.resolve_addr(args[2])
            if self.arrays and self._array_for(dst) is not None:
                for i in range(n):
                    self.store_bytes(dst + i, b, 1)
                return None
            for i in range(n):
                self.mem[dst + i] = b if type(b) is int else (z3.ZeroExt(0, b), 0)
            return None
        if op == "threadlocal":
            return args[0]
        if op == "trap":
            raise RustPanic("llvm.trap")
        if op == "is":
            return 0
        bits = int(base[-1][1:]) if base[-1].startswith("i") and base[-1][1:].isdigit() else None
        if op in ("umin", "umax", "smin", "smax"):
            a, b = args
            if type(a) is int and type(b) is int:
                if op[0] == "u":
                    return min(a, b) if op == "umin" else max(a, b)
                sa, sb = to_signed(a, bits), to_signed(b, bits)
                return (min(sa, sb) if op == "smin" else max(sa, sb)) & mask(bits)
            ta, tb = to_term(a, bits), to_term(b, bits)
            c = {"umin": z3.ULT, "umax": z3.UGT, "smin": lambda x, y: x < y, "smax": lambda x, y: x > y}[op](ta, tb)
            return z3.If(c, ta, tb)
        if op in ("uadd", "usub") and base[2] == "sat":
            a, b = args
            if type(a) is int and type(b) is int:
                return min(a + b, mask(bits)) if op == "uadd" else max(a - b, 0)
            ta, tb = to_term(a, bits), to_term(b, bits)
            if op == "uadd":
                s = ta + tb
                return z3.If(z3.ULT(s, ta), bvv(mask(bits), bits), s)
            return z3.If(z3.ULT(ta, tb), bvv(0, bits), ta - tb)
        if op in ("ctpop", "ctlz", "cttz", "bswap", "bitreverse", "abs"):
            a = args[0]
            if is_sym(a):
                a = self.resolve_addr(z3.ZeroExt(64 - bits, a) if bits < 64 else a) & mask(bits)
            if op == "ctpop":
                return bin(a).count("1")
            if op == "ctlz":
                return bits - a.bit_length()
            if op == "cttz":
                return bits if a == 0 else (a & -a).bit_length() - 1
            if op == "bswap":
                return int.from_bytes(a.to_bytes(bits // 8, "little"), "big")
            if op == "bitreverse":
                return int(format(a, f"0{bits}b")[::-1], 2)
            if op == "abs":
                return abs(to_signed(a, bits)) & mask(bits)
        if op in ("fshl", "fshr"):
            a, b, c = args
            if type(a) is int and type(b) is int and type(c) is int:
                c %= bits
                w = (a << bits) | b
                if op == "fshl":
                    return (w >> (bits - c)) & mask(bits) if c else a
                return (w >> c) & mask(bits)
            ta, tb, tc = to_term(a, bits), to_term(b, bits), to_term(c, bits)
            w = z3.Concat(ta, tb)
            sh = z3.ZeroExt(bits, z3.URem(tc, bvv(bits, bits)))
            if op == "fshl":
                return z3.Extract(2 * bits - 1, bits, w << sh)
            return z3.Extract(bits - 1, 0, z3.LShR(w, sh))
        if op == "ucmp" or op == "scmp":
            a, b = args
            n = int(base[-1][1:])
            rb = int(base[2][1:])
            if type(a) is int and type(b) is int:
                if op == "scmp":
                    a, b = to_signed(a, n), to_signed(b, n)
                return (0 if a == b else (1 if a > b else -1)) & mask(rb)
            ta, tb = to_term(a, n), to_term(b, n)
            gt = z3.UGT(ta, tb) if op == "ucmp" else ta > tb
            return z3.If(ta == tb, bvv(0, rb), z3.If(gt, bvv(1, rb), bvv(mask(rb), rb)))
        if op in ("sadd", "uadd", "ssub", "usub", "smul", "umul") and base[2] == "with":
            a, b = args
            if type(a) is int and type(b) is int:
                if op[0] == "u":
                    full = {"uadd": a + b, "usub": a - b, "umul": a * b}[op]
                    return [full & mask(bits), int(full < 0 or full > mask(bits))]
                sa, sb = to_signed(a, bits), to_signed(b, bits)
                full = {"sadd": sa + sb, "ssub": sa - sb, "smul": sa * sb}[op]
                return [full & mask(bits), int(not (-(1 << (bits - 1)) <= full < (1 << (bits - 1))))]
            ta, tb = to_term(a, bits), to_term(b, bits)
            if op == "uadd":
                s = ta + tb
                return [s, z3.If(z3.ULT(s, ta), bvv(1, 1), bvv(0, 1))]
            if op == "usub":
                return [ta - tb, z3.If(z3.ULT(ta, tb), bvv(1, 1), bvv(0, 1))]
            if op == "umul":
                w = z3.ZeroExt(bits, ta) * z3.ZeroExt(bits, tb)
                return [z3.Extract(bits - 1, 0, w), z3.If(z3.Extract(2 * bits - 1, bits, w) != 0, bvv(1, 1), bvv(0, 1))]
            raise Unsupported(name)
        raise Unsupported(f"intrinsic {name}")

    # ---------------------------------------------------------------- the interpreter loop
    def run(self, fn, args):
        if self.trace_calls:
            self.fn_counts[fn.name] = self.fn_counts.get(fn.name, 0) + 1
        frame = {}
        for (pt, pn), a in zip(fn.params, args):
            frame[pn] = a
        saved_sp = self.sp
        saved_allocas = len(self.allocas)
        blocks = fn.blocks
        label = fn.order[0]
        prev = None
        val = self.val
        layout = self.layout
        self.depth += 1
        if self.depth > 600:
            raise Unsupported("call depth")
        try:
            while True:
                instrs = blocks[label]
                i = 0
                # phis first (simultaneous)
                if instrs and instrs[0][1] == "phi":
                    newv = []
                    while i < len(instrs) and instrs[i][1] == "phi":
                        ins = instrs[i]
                        newv.append((ins[0], val(frame, ins[2], ins[3][prev])))
                        i += 1
                    for k_, v_ in newv:
                        frame[k_] = v_
                n_ins = len(instrs)
                self.steps += n_ins
                if self.steps > self.STEP_LIMIT:
                    raise StepLimit(f"step limit in {fn.name}")
                jumped = False
                while i < n_ins:
                    ins = instrs[i]
                    i += 1
                    op = ins[1]
                    if op == "load":
                        addr = val(frame, IR.PTR, ins[3])
                        if type(addr) is not int:
                            frame[ins[0]] = self.load_sym(addr, ins[2])
                        else:
                            frame[ins[0]] = self.load_typed(addr, ins[2])
                    elif op == "gep":
                        base = val(frame, IR.PTR, ins[3])
                        frame[ins[0]] = self.gep(frame, base, ins[2], ins[4])
                    elif op == "store":
                        addr = val(frame, IR.PTR, ins[4])
                        if type(addr) is not int:
                            self.store_sym(addr, ins[2], val(frame, ins[2], ins[3]))
                        else:
                            self.store_typed(addr, ins[2], val(frame, ins[2], ins[3]))
                    elif op == "icmp":
                        frame[ins[0]] = self.icmp(ins[2], ins[3], val(frame, ins[3], ins[4]), val(frame, ins[3], ins[5]))
                    elif op == "bin":
                        t = ins[3]
                        a, b = val(frame, t, ins[4]), val(frame, t, ins[5])
                        frame[ins[0]] = self.binop(ins[2], t, a, b)
                    elif op == "br":
                        prev, label = label, ins[2]
                        jumped = True
                        break
                    elif op == "condbr":
                        c = val(frame, ("int", 1), ins[2])
                        prev, label = label, (ins[3] if self.truth(c) else ins[4])
                        jumped = True
                        break
                    elif op == "call" or op == "invoke":
                        callee = ins[3]
                        cargs = [val(frame, at, av) for (at, av) in ins[4]]
                        if callee[0] == "global":
                            r = self.call(callee[1], cargs)
                        else:
                            fp = frame[callee[1]]
                            fp = self.resolve_addr(fp)
                            nm = self.img.fn_at.get(fp)
                            if nm is None:
                                raise Unsupported(f"indirect call to {fp:#x}")
                            r = self.call(nm, cargs)
                        if ins[0] is not None:
                            frame[ins[0]] = r
                        if op == "invoke":
                            prev, label = label, ins[5]
                            jumped = True
                            break
                    elif op == "cast":
                        frame[ins[0]] = self.cast(ins[2], ins[3], val(frame, ins[3], ins[4]), ins[5])
                    elif op == "select":
                        c = val(frame, ins[2], ins[3])
                        a, b = val(frame, ins[4], ins[5]), val(frame, ins[4], ins[6])
                        frame[ins[0]] = self.select(ins[2], c, ins[4], a, b)
                    elif op == "alloca":
                        size, al = layout.size_align(ins[2])
                        cnt = val(frame, ("int", 64), ins[3])
                        frame[ins[0]] = self.alloc_stack(size * cnt, max(al, 1))
                    elif op == "ret":
                        return None if ins[2] is None else val(frame, ins[2], ins[3])
                    elif op == "switch":
                        v = val(frame, ins[2], ins[3])
                        if type(v) is not int:
                            sv = z3.simplify(v)
                            if z3.is_bv_value(sv):
                                v = sv.as_long()
                            else:
                                bits = sv.size()
                                s = core.SymInt(z3.ZeroExt(64 - bits, sv) if bits < 64 else sv, 0, mask(min(bits, 62)))
                                v = core.engine().concretize(s) & mask(bits)
                        prev, label = label, ins[5].get(v, ins[4])
                        jumped = True
                        break
                    elif op == "extractvalue":
                        v = val(frame, ins[2], ins[3])
                        for ix in ins[4]:
                            v = v[ix]
                        frame[ins[0]] = v
                    elif op == "insertvalue":
                        v = val(frame, ins[2], ins[3])
                        e = val(frame, ins[4], ins[5])
                        frame[ins[0]] = _insert(v, ins[6], e)
                    elif op == "unreachable":
                        raise RustPanic(f"unreachable executed in {fn.name}")
                    elif op == "atomicrmw":
                        addr = self.resolve_addr(val(frame, IR.PTR, ins[3]))
                        t = ins[4]
                        old = self.load_typed(addr, t)
                        v = val(frame, t, ins[5])
                        rop = ins[2]
                        if rop == "xchg":
                            new = v
                        elif rop in ("add", "sub", "and", "or", "xor"):
                            new = self.binop(rop, t, old, v)
                        elif rop in ("umax", "umin", "max", "min"):
                            new = self.intrinsic(f"llvm.{'u' if rop[0] == 'u' else 's'}{rop[-3:]}.i{t[1]}", [old, v])
                        else:
                            raise Unsupported(f"atomicrmw {rop}")
                        self.store_typed(addr, t, new)
                        frame[ins[0]] = old
                    elif op == "cmpxchg":
                        addr = self.resolve_addr(val(frame, IR.PTR, ins[2]))
                        t = ins[3]
                        old = self.load_typed(addr, t)
                        cmpv = val(frame, t, ins[4])
                        newv = val(frame, t, ins[5])
                        eq = self.icmp("eq", t, old, cmpv)
                        ok = self.truth(eq)
                        if ok:
                            self.store_typed(addr, t, newv)
                        frame[ins[0]] = [old, 1 if ok else 0]
                    elif op == "fence":
                        pass
                    elif op == "freeze":
                        frame[ins[0]] = val(frame, ins[2], ins[3])
                    elif op == "extractelement":
                        v = val(frame, ins[2], ins[3])
                        ix = val(frame, ("int", 64), ins[4])
                        frame[ins[0]] = v[self.resolve_addr(ix)]
                    elif op == "insertelement":
                        v = list(val(frame, ins[2], ins[3]))
                        t0 = layout.resolve(ins[2])
                        e = val(frame, t0[2], ins[4])
                        ix = self.resolve_addr(val(frame, ("int", 64), ins[5]))
                        v[ix] = e
                        frame[ins[0]] = v
                    elif op == "shufflevector":
                        a = val(frame, ins[2], ins[3])
                        b = val(frame, ins[2], ins[4])
                        mt = layout.resolve(ins[5])
                        m = ins[6]
                        if m[0] in ("zero", "undef"):
                            idxs = [0] * mt[1]
                        elif m[0] == "agg":
                            idxs = [(e[1][1] if e[1][0] == "int" else 0) for e in m[1]]
                        else:
                            raise Unsupported(f"shuffle mask {m}")
                        both = list(a) + list(b)
                        frame[ins[0]] = [both[j] for j in idxs]
                    elif op in ("landingpad", "resume"):
                        raise RustPanic("unwinding path executed")
                    else:
                        raise Unsupported(f"instruction {op}")
                if not jumped:
                    raise Unsupported(f"fell off block {label} in {fn.name}")
        finally:
            self.sp = saved_sp
            del self.allocas[saved_allocas:]
            if self.arrays:
                self.arrays = [o for o in self.arrays if not (STACK_BASE <= o[0] and o[0] >= saved_sp)]
            self.depth -= 1

    # ---------------------------------------------------------------- instruction helpers
    def gep(self, frame, base, bt, idx):
        layout = self.layout
        off = 0
        soff = None
        t = bt
        first = True
        for (it, iv) in idx:
            i = self.val(frame, it, iv)
            ibits = layout.store_bits(it)
            if first:
                es = layout.size(t)
                first = False
            else:
                t0 = layout.resolve(t)
                if t0[0] == "struct":
                    if type(i) is not int:
                        i = self.resolve_addr(i)
                    o, t = layout.field_offset(t0, i)
                    off += o
                    continue
                t = t0[2]
                es = layout.size(t)
            if type(i) is int:
                off += to_signed(i, ibits) * es
            else:
                term = z3.SignExt(64 - ibits, i) if ibits < 64 else i
                term = term * bvv(es, 64) if es != 1 else term
                soff = term if soff is None else soff + term
        if soff is None and type(base) is int:
            return (base + off) & M64
        r = to_term(base, 64) + bvv(off & M64, 64)
        if soff is not None:
            r = r + soff
        return r

    def binop(self, op, t, a, b):
        t0 = t if t[0] == "int" else self.layout.resolve(t)
        if t0[0] == "vector":
            return [self.binop(op, t0[2], x, y) for x, y in zip(a, b)]
        n = t0[1] if t0[0] == "int" else 64
        if type(a) is int and type(b) is int:
            return _binop_int(op, a, b, n)
        if op in ("udiv", "urem", "sdiv", "srem"):
            tb = to_term(b, n)
            if core.engine().decide(tb == bvv(0, n)):
                raise RustPanic("division by zero")
        if op in ("shl", "lshr", "ashr"):
            pass  # LLVM: shift >= width is poison; rustc masks or checks before
        return _binop_sym(op, a, b, n)

    def icmp(self, pred, t, a, b):
        t0 = t if t[0] in ("int", "ptr") else self.layout.resolve(t)
        if t0[0] == "vector":
            return [self.icmp(pred, t0[2], x, y) for x, y in zip(a, b)]
        n = t0[1] if t0[0] == "int" else 64
        if type(a) is int and type(b) is int:
            return 1 if _ICMP_INT[pred](a, b, n) else 0
        c = _ICMP_SYM[pred](to_term(a, n), to_term(b, n))
        c = z3.simplify(c)
        if z3.is_true(c):
            return 1
        if z3.is_false(c):
            return 0
        return z3.If(c, bvv(1, 1), bvv(0, 1))

    def cast(self, op, st, v, dt):
        s0 = st if st[0] in ("int", "ptr") else self.layout.resolve(st)
        d0 = dt if dt[0] in ("int", "ptr") else self.layout.resolve(dt)
        if s0[0] == "vector" or d0[0] == "vector":
            if op == "bitcast":
                return self.bitcast_vec(s0, v, d0)
            return [self.cast(op, s0[2], x, d0[2]) for x in v]
        sb = s0[1] if s0[0] == "int" else 64
        db = d0[1] if d0[0] == "int" else 64
        if type(v) is int:
            if op in ("zext", "ptrtoint", "inttoptr", "bitcast", "trunc", "addrspacecast"):
                return v & mask(db)
            if op == "sext":
                return to_signed(v, sb) & mask(db)
            raise Unsupported(op)
        if op == "sext":
            return z3.SignExt(db - sb, v)
        if db > sb:
            return z3.ZeroExt(db - sb, v)
        if db < sb:
            return z3.Extract(db - 1, 0, v)
        return v

    def bitcast_vec(self, s0, v, d0):
        # <N x i1> -> iN  and  iN -> <N x i1>, <16 x i8> <-> i128
        if s0[0] == "vector" and d0[0] == "int":
            eb = self.layout.resolve(s0[2])[1]
            if all(type(x) is int for x in v):
                r = 0
                for i, x in enumerate(v):
                    r |= (x & mask(eb)) << (eb * i)
                return r
            return z3.simplify(z3.Concat(*[to_term(x, eb) for x in reversed(v)]))
        if s0[0] == "int" and d0[0] == "vector":
            eb = self.layout.resolve(d0[2])[1]
            if type(v) is int:
                return [(v >> (eb * i)) & mask(eb) for i in range(d0[1])]
            return [z3.Extract(eb * i + eb - 1, eb * i, v) for i in range(d0[1])]
        if s0[0] == "vector" and d0[0] == "vector":
            sb = self.layout.resolve(s0[2])[1]
            whole = self.bitcast_vec(s0, v, ("int", sb * s0[1]))
            return self.bitcast_vec(("int", sb * s0[1]), whole, d0)
        raise Unsupported("vector bitcast")

    def select(self, ct, c, t, a, b):
        c0 = ct if ct[0] == "int" else self.layout.resolve(ct)
        if c0[0] == "vector":
            t0 = self.layout.resolve(t)
            return [self.select(c0[2], cc, t0[2], x, y) for cc, x, y in zip(c, a, b)]
        if type(c) is int:
            return a if c & 1 else b
        if isinstance(a, list) or isinstance(b, list):
            return a if self.truth(c) else b
        if type(a) is int and type(b) is int and a == b:
            return a
        t0 = t if t[0] in ("int", "ptr") else self.layout.resolve(t)
        n = t0[1] if t0[0] == "int" else 64
        return z3.If(c == bvv(1, 1), to_term(a, n), to_term(b, n))


def _insert(agg, idx, e):
    agg = list(agg)
    if len(idx) == 1:
        agg[idx[0]] = e
    else:
        agg[idx[0]] = _insert(agg[idx[0]], idx[1:], e)
    return agg


# ---------------------------------------------------------------- libc stubs


def _malloc(m, size):
    return m.malloc(size)


def _calloc(m, a, b):
    a, b = m.resolve_addr(a), m.resolve_addr(b)
    return m.malloc(a * b)


def _realloc(m, p, size):
    p, size = m.resolve_addr(p), m.resolve_addr(size)
    new = m.malloc(size)
    old = m.heap_sizes.get(p, 0)
    mem = m.mem
    for i in range(min(old, size)):
        c = mem.get(p + i)
        if c is not None:
            mem[new + i] = c
    if p:
        _free(m, p)
    return new


def _free(m, p):
    # freed blocks are never reused (bump allocator); their cells are dropped so that scans of live memory do not see them
    p = m.resolve_addr(p)
    size = m.heap_sizes.pop(p, None)
    if size is None:
        return None
    for obj in m.arrays:
        if obj[0] == p:
            m.arrays.remove(obj)  # array-mode block: no flat cells to drop
            return None
    mem = m.mem
    if size <= 4096:
        for a in range(p, p + size):
            mem.pop(a, None)
    else:
        for a in [a for a in mem if p <= a < p + size]:
            del mem[a]
    return None


def _clock_gettime(m, clk, ts):
    # time is not an input of any checked property: a fixed instant (timestamps only label snapshot metadata)
    m.store_bytes(m.resolve_addr(ts), 0, 8)
    m.store_bytes(m.resolve_addr(ts) + 8, 0, 8)
    return 0


def _posix_memalign(m, out, align, size):
    a = m.malloc(m.resolve_addr(size), align=max(16, m.resolve_addr(align)))
    m.store_bytes(m.resolve_addr(out), a, 8)
    return 0


def _getenv(m, p):
    return 0


def _getrandom(m, buf, n, flags):
    buf, n = m.resolve_addr(buf), m.resolve_addr(n)
    for i in range(n):
        m.mem[buf + i] = (0x5A + 7 * i) & 0xFF
    return n


def _syscall(m, num, *a):
    if num == 318:  # SYS_getrandom
        return _getrandom(m, a[0], a[1], a[2])
    raise Unsupported(f"syscall {num}")


def _bcmp(m, a, b, n):
    a, b, n = m.resolve_addr(a), m.resolve_addr(b), m.resolve_addr(n)
    x = m.load_bytes(a, n) if n else 0
    y = m.load_bytes(b, n) if n else 0
    if type(x) is int and type(y) is int:
        return 0 if x == y else 1
    eq = to_term(x, 8 * n) == to_term(y, 8 * n)
    return z3.If(eq, bvv(0, 32), bvv(1, 32))


def _memcmp(m, a, b, n):
    a, b, n = m.resolve_addr(a), m.resolve_addr(b), m.resolve_addr(n)
    for i in range(n):
        x, y = m.load_bytes(a + i, 1), m.load_bytes(b + i, 1)
        if is_sym(x) or is_sym(y):
            x = m.resolve_addr(z3.ZeroExt(56, to_term(x, 8))) & 0xFF
            y = m.resolve_addr(z3.ZeroExt(56, to_term(y, 8))) & 0xFF
        if x != y:
            return (x - y) & 0xFFFFFFFF
    return 0


def _strlen(m, p):
    p = m.resolve_addr(p)
    n = 0
    while m.mem.get(p + n, 0) != 0:
        n += 1
    return n


def _abort(m):
    raise RustPanic("abort")


def _write(m, fd, buf, n):
    return m.resolve_addr(n)


def _errno(m):
    if m.errno_addr is None:
        m.errno_addr = m.malloc(8)
    return m.errno_addr


def _key_create(m, out, dtor):
    k = len(m.tls_keys) + 1
    m.tls_keys[k] = 0
    m.store_bytes(m.resolve_addr(out), k, 4)
    return 0


STUBS = {
    "clock_gettime": _clock_gettime, "malloc": _malloc, "calloc": _calloc, "realloc": _realloc, "free": _free, "posix_memalign": _posix_memalign,
    "getenv": _getenv, "getrandom": _getrandom, "syscall": _syscall, "bcmp": _bcmp, "memcmp": _memcmp, "strlen": _strlen,
    "abort": _abort, "write": _write, "__errno_location": _errno,
    "pthread_key_create": _key_create, "pthread_key_delete": lambda m, k: 0,
    "pthread_setspecific": lambda m, k, v: (m.tls_keys.__setitem__(m.resolve_addr(k), v), 0)[1],
    "pthread_getspecific": lambda m, k: m.tls_keys.get(m.resolve_addr(k), 0),
    "__cxa_thread_atexit_impl": lambda m, f, o, d: 0,
    "gettid": lambda m: 1,
}
