"""Builds the harness + real Rust core from /repo's CURRENT working tree into LLVM IR and a
native replay binary; caches by content hash under /verif/.cache/rsym/<sha>/.

The scratch copy (sources, vendored crates, target dir) lives outside /repo and /verif and is
deleted as soon as the artefacts are copied into the cache.
"""
from __future__ import annotations

import glob
import hashlib
import os
import shutil
import subprocess
import sys
import tempfile
import time

VERIF = os.path.dirname(os.path.dirname(os.path.dirname(os.path.abspath(__file__))))
REPO = os.environ.get("VERIF_REPO", "/repo")
CACHE = os.environ.get("VERIF_RSYM_CACHE", os.path.join(VERIF, ".cache", "rsym"))  # overrides: development of a new harness entry next to running checks
HARNESS = os.environ.get("VERIF_RSYM_HARNESS", os.path.join(os.path.dirname(os.path.abspath(__file__)), "harness"))
RUSTFLAGS = "-C no-vectorize-loops -C no-vectorize-slp"


def _hash_tree(paths):
    h = hashlib.sha256()
    for root in paths:
        for dp, dn, fn in sorted(os.walk(root)):
            dn.sort()
            for f in sorted(fn):
                p = os.path.join(dp, f)
                if "/target/" in p:
                    continue
                h.update(os.path.relpath(p, root).encode())
                with open(p, "rb") as fh:
                    h.update(fh.read())
    h.update(RUSTFLAGS.encode())
    h.update(open(os.path.abspath(__file__), "rb").read())
    h.update(open(os.path.join(os.path.dirname(os.path.abspath(__file__)), "build.sh"), "rb").read())
    return h.hexdigest()[:20]


def cache_key():
    return _hash_tree([os.path.join(REPO, "sc62015", "core", "src"), HARNESS])


def ensure_built(verbose=True):
    """-> dict(ll=path, replay=path, key=sha, built=bool, build_s=float).  Serialised by a lock file: concurrent callers
    (pool workers, two checks started side by side) wait for the one build instead of racing on the cache directory."""
    import fcntl

    os.makedirs(CACHE, exist_ok=True)
    with open(os.path.join(CACHE, ".lock"), "w") as lk:
        fcntl.flock(lk, fcntl.LOCK_EX)
        try:
            return _ensure_built(verbose)
        finally:
            fcntl.flock(lk, fcntl.LOCK_UN)


def _ensure_built(verbose=True):
    key = cache_key()
    d = os.path.join(CACHE, key)
    ll = os.path.join(d, "harness.ll")
    rp = os.path.join(d, "replay")
    if os.path.exists(ll) and os.path.exists(rp) and os.path.exists(os.path.join(d, "ok")):
        return {"ll": ll, "replay": rp, "key": key, "built": False, "build_s": 0.0, "dir": d}
    t0 = time.time()
    os.makedirs(d, exist_ok=True)
    # drop older cache entries (disk space)
    for old in glob.glob(os.path.join(CACHE, "*")):
        if os.path.basename(old) != key and os.path.isdir(old):
            shutil.rmtree(old, ignore_errors=True)
    work = tempfile.mkdtemp(prefix="verif-rsym-")
    try:
        env = dict(os.environ, CARGO_NET_OFFLINE="true", VERIF_REPO=REPO)
        subprocess.run([os.path.join(os.path.dirname(os.path.abspath(__file__)), "build.sh"), work], check=True, env=env, capture_output=True)
        shutil.copytree(HARNESS, os.path.join(work, "harness"))
        shutil.copytree(os.path.join(work, ".cargo"), os.path.join(work, "harness", ".cargo"))
        env["RUSTFLAGS"] = RUSTFLAGS
        hd = os.path.join(work, "harness")
        cp = subprocess.run(["cargo", "rustc", "--release", "--offline", "--lib", "--crate-type", "staticlib", "--", "--emit=llvm-ir"], cwd=hd, env=env, capture_output=True, text=True)
        if cp.returncode != 0:
            raise RuntimeError("cargo rustc failed:\n" + cp.stderr[-3000:])
        lls = [p for p in glob.glob(os.path.join(hd, "target", "release", "deps", "verif_harness-*.ll"))]
        if not lls:
            raise RuntimeError("no .ll produced")
        lls.sort(key=os.path.getsize)
        shutil.copy(lls[-1], ll)
        cp = subprocess.run(["cargo", "build", "--release", "--offline", "--bin", "replay"], cwd=hd, env=env, capture_output=True, text=True)
        if cp.returncode != 0:
            raise RuntimeError("cargo build replay failed:\n" + cp.stderr[-3000:])
        shutil.copy(os.path.join(hd, "target", "release", "replay"), rp)
        open(os.path.join(d, "ok"), "w").write(key)
    finally:
        shutil.rmtree(work, ignore_errors=True)
    dt = time.time() - t0
    if verbose:
        print(f"rsym: built harness IR + replay binary from {REPO}/sc62015/core in {dt:.1f}s (cache {key})", file=sys.stderr)
    return {"ll": ll, "replay": rp, "key": key, "built": True, "build_s": dt, "dir": d}


_IMAGE = None


def image():
    """Parsed module + global image of the current build (per-process singleton)."""
    global _IMAGE
    if _IMAGE is None:
        from . import ir, interp

        b = ensure_built()
        mod = ir.load_module(b["ll"], os.path.join(b["dir"], "mod.pkl"))
        _IMAGE = (interp.Image(mod), b)
    return _IMAGE


def run_replay(entry, inputs, mem, default=0, timeout=60, inputs64=None):
    """Run the native replay binary. -> dict(ret, out{idx:val}, stores[(addr,val)])"""
    b = ensure_built(verbose=False)
    with tempfile.NamedTemporaryFile("w", suffix=".in", delete=False) as f:
        f.write(f"default {default}\n")
        for i, v in inputs.items():
            f.write(f"in {i} {v}\n")
        for i, v in (inputs64 or {}).items():
            f.write(f"in64 {i} {v}\n")
        for a, v in mem.items():
            f.write(f"mem {a} {v}\n")
        path = f.name
    try:
        cp = subprocess.run([b["replay"], entry, path], capture_output=True, text=True, timeout=timeout)
    finally:
        os.unlink(path)
    res = {"ret": None, "out": {}, "out64": {}, "stores": [], "rc": cp.returncode, "stderr": cp.stderr[-500:]}
    for line in cp.stdout.splitlines():
        p = line.split()
        if p[0] == "ret":
            res["ret"] = int(p[1])
        elif p[0] == "out":
            res["out"][int(p[1])] = int(p[2])
        elif p[0] == "out64":
            res["out64"][int(p[1])] = int(p[2])
        elif p[0] == "st":
            res["stores"].append((int(p[1]), int(p[2])))
    return res


if __name__ == "__main__":
    print(ensure_built())
