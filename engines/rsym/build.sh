#!/bin/bash
# Offline build of the Rust core (sc62015/core) from /repo's CURRENT working tree.
# usage: build.sh <workdir> [--test]   -> prepares <workdir>/core (trimmed manifest) + <workdir>/vendor
# The crate's optional features (cli, perfetto, snapshot) need crates that are not in the offline
# registry cache; the crate compiles without them, so the manifest is trimmed to serde/serde_json/thiserror.
set -e
W="$1"; REPO="${VERIF_REPO:-/repo}"
mkdir -p "$W"
rm -rf "$W/core"; mkdir -p "$W/core"
cp -r "$REPO/sc62015/core/src" "$W/core/src"
cat > "$W/core/Cargo.toml" <<'T'
[package]
name = "sc62015-core"
version = "0.1.0"
edition = "2021"

[dependencies]
serde = { version = "1.0", features = ["derive"] }
serde_json = "1.0"
thiserror = "1.0"

[features]
default = []
llama-tests = []
cli = []
perfetto = []
snapshot = []
T
if [ ! -d "$W/vendor" ]; then
  mkdir -p "$W/vendor"
  SRC=$(ls -d ~/.cargo/registry/src/*/ | head -1)
  for c in serde serde_core serde_derive serde_json thiserror thiserror-impl proc-macro2 quote syn unicode-ident itoa ryu memchr zmij; do
    for d in $(ls -d ${SRC}${c}-[0-9]* 2>/dev/null); do
      n=$(basename $d); cp -r $d "$W/vendor/$n"; echo '{"files":{},"package":null}' > "$W/vendor/$n/.cargo-checksum.json"
    done
  done
fi
mkdir -p "$W/.cargo"
cat > "$W/.cargo/config.toml" <<T
[source.crates-io]
replace-with = "vendored"
[source.vendored]
directory = "$W/vendor"
[net]
offline = true
T
echo "prepared $W"
