"""Reader for the textual LLVM IR rustc 1.95 emits (opaque pointers).

Only the subset that occurs in the harness modules is understood; anything else is a
hard error naming the construct (never skipped).
"""
from __future__ import annotations

import re
import pickle

_TOKEN = re.compile(
    r"""
    (?P<cstr>c"(?:[^"\\]|\\[0-9A-Fa-f]{2}|\\.)*")
  | (?P<qid>[%@]"(?:[^"\\]|\\.)*")
  | (?P<id>[%@][-a-zA-Z$._0-9]+)
  | (?P<str>"(?:[^"\\]|\\.)*")
  | (?P<meta>![-a-zA-Z$._0-9]*)
  | (?P<attr>\#\d+)
  | (?P<hex>0x[0-9A-Fa-f]+)
  | (?P<num>-?\d+(?:\.\d+(?:e[+-]?\d+)?)?)
  | (?P<dots>\.\.\.)
  | (?P<word>[a-zA-Z_][a-zA-Z0-9_.]*)
  | (?P<punct>[,()\[\]{}<>=*:|])
  | (?P<ws>\s+)
  | (?P<comment>;.*$)
    """,
    re.X | re.M,
)


class IRError(Exception):
    pass


def tokenize(s):
    out = []
    pos = 0
    n = len(s)
    while pos < n:
        m = _TOKEN.match(s, pos)
        if not m:
            raise IRError(f"cannot tokenize at {s[pos:pos + 40]!r}")
        pos = m.end()
        k = m.lastgroup
        if k in ("ws", "comment"):
            continue
        out.append((k, m.group()))
    return out


def unq(name):
    """%"a b" -> %a b  (keep sigil)."""
    if len(name) > 1 and name[1] == '"':
        body = name[2:-1]
        body = re.sub(r"\\([0-9A-Fa-f]{2})", lambda m: chr(int(m.group(1), 16)), body)
        return name[0] + body
    return name


def cstr_bytes(tok):
    body = tok[2:-1]
    out = bytearray()
    i = 0
    while i < len(body):
        c = body[i]
        if c == "\\":
            if body[i + 1] == "\\":
                out.append(0x5C)
                i += 2
                continue
            out.append(int(body[i + 1 : i + 3], 16))
            i += 3
        else:
            out.append(ord(c))
            i += 1
    return bytes(out)


# ---------------------------------------------------------------- types

VOID = ("void",)
PTR = ("ptr",)


def I(n):
    return ("int", n)


class TS:
    """token stream"""

    def __init__(self, toks):
        self.t = toks
        self.i = 0

    def peek(self, k=0):
        j = self.i + k
        return self.t[j] if j < len(self.t) else (None, None)

    def next(self):
        tok = self.t[self.i]
        self.i += 1
        return tok

    def accept(self, val):
        if self.i < len(self.t) and self.t[self.i][1] == val:
            self.i += 1
            return True
        return False

    def expect(self, val):
        tok = self.next()
        if tok[1] != val:
            raise IRError(f"expected {val!r}, got {tok!r} in {self.context()}")

    def done(self):
        return self.i >= len(self.t)

    def context(self):
        return " ".join(t[1] for t in self.t[max(0, self.i - 8) : self.i + 8])


_INT_RE = re.compile(r"^i(\d+)$")


def parse_type(ts: TS):
    k, v = ts.next()
    if k == "word":
        m = _INT_RE.match(v)
        if m:
            t = I(int(m.group(1)))
        elif v == "ptr":
            t = PTR
            # address space: ptr addrspace(N)
            if ts.peek()[1] == "addrspace":
                ts.next()
                ts.expect("(")
                ts.next()
                ts.expect(")")
        elif v == "void":
            t = VOID
        elif v in ("float", "double", "half", "x86_fp80", "fp128"):
            t = ("float", v)
        elif v in ("label", "metadata", "token"):
            t = (v,)
        elif v == "opaque":
            t = ("opaque",)
        else:
            raise IRError(f"unknown type word {v!r} in {ts.context()}")
    elif k in ("id", "qid") and v[0] == "%":
        t = ("named", unq(v))
    elif v == "[":
        n = int(ts.next()[1])
        ts.expect("x")
        e = parse_type(ts)
        ts.expect("]")
        t = ("array", n, e)
    elif v == "{":
        elems = []
        if not ts.accept("}"):
            while True:
                elems.append(parse_type(ts))
                if ts.accept("}"):
                    break
                ts.expect(",")
        t = ("struct", tuple(elems), False)
    elif v == "<":
        if ts.peek()[1] == "{":
            ts.next()
            elems = []
            if not ts.accept("}"):
                while True:
                    elems.append(parse_type(ts))
                    if ts.accept("}"):
                        break
                    ts.expect(",")
            ts.expect(">")
            t = ("struct", tuple(elems), True)
        else:
            n = int(ts.next()[1])
            ts.expect("x")
            e = parse_type(ts)
            ts.expect(">")
            t = ("vector", n, e)
    else:
        raise IRError(f"cannot parse type at {v!r} in {ts.context()}")
    # function type suffix:  RET (ARGS...)
    if ts.peek()[1] == "(" and t[0] != "label":
        # only treat as a function type when what follows looks like a type list
        save = ts.i
        try:
            ts.next()
            params = []
            vararg = False
            if not ts.accept(")"):
                while True:
                    if ts.peek()[1] == "...":
                        ts.next()
                        vararg = True
                    else:
                        params.append(parse_type(ts))
                    if ts.accept(")"):
                        break
                    ts.expect(",")
            t = ("func", t, tuple(params), vararg)
        except (IRError, IndexError, ValueError):
            ts.i = save
    return t


# ---------------------------------------------------------------- values

_CAST_OPS = {"ptrtoint", "inttoptr", "bitcast", "trunc", "zext", "sext", "addrspacecast"}
_BIN_OPS = {"add", "sub", "mul", "and", "or", "xor", "shl", "lshr", "ashr", "udiv", "sdiv", "urem", "srem"}
_FLAGS = {"inbounds", "nuw", "nsw", "nusw", "exact", "nneg", "disjoint", "samesign", "inrange"}


def parse_value(ts: TS, ty):
    k, v = ts.next()
    if k == "num":
        if ty[0] == "float":
            return ("float", v)
        return ("int", int(v))
    if k == "hex":
        return ("float", v)
    if k in ("id", "qid"):
        name = unq(v)
        return ("local", name[1:]) if name[0] == "%" else ("global", name[1:])
    if k == "cstr":
        return ("cstr", cstr_bytes(v))
    if k == "word":
        if v == "true":
            return ("int", 1)
        if v == "false":
            return ("int", 0)
        if v == "null":
            return ("null",)
        if v in ("undef", "poison"):
            return ("undef",)
        if v == "zeroinitializer":
            return ("zero",)
        if v == "none":
            return ("none",)
        if v == "splat":
            ts.expect("(")
            et = parse_type(ts)
            ev = parse_value(ts, et)
            ts.expect(")")
            return ("splat", ev)
        if v == "getelementptr":
            while ts.peek()[1] in _FLAGS:
                ts.next()
                if ts.peek()[1] == "(" and ts.t[ts.i - 1][1] == "inrange":
                    # inrange(a, b)
                    depth = 0
                    while True:
                        tok = ts.next()[1]
                        depth += tok == "("
                        depth -= tok == ")"
                        if depth == 0:
                            break
            ts.expect("(")
            base_t = parse_type(ts)
            ts.expect(",")
            pt = parse_type(ts)
            pv = parse_value(ts, pt)
            idx = []
            while ts.accept(","):
                it = parse_type(ts)
                idx.append((it, parse_value(ts, it)))
            ts.expect(")")
            return ("cgep", base_t, pv, idx)
        if v in _CAST_OPS:
            ts.expect("(")
            st = parse_type(ts)
            sv = parse_value(ts, st)
            ts.expect("to")
            dt = parse_type(ts)
            ts.expect(")")
            return ("ccast", v, st, sv, dt)
        if v in _BIN_OPS:
            while ts.peek()[1] in _FLAGS:
                ts.next()
            ts.expect("(")
            t1 = parse_type(ts)
            v1 = parse_value(ts, t1)
            ts.expect(",")
            t2 = parse_type(ts)
            v2 = parse_value(ts, t2)
            ts.expect(")")
            return ("cbin", v, t1, v1, v2)
        if v == "icmp":
            pred = ts.next()[1]
            ts.expect("(")
            t1 = parse_type(ts)
            v1 = parse_value(ts, t1)
            ts.expect(",")
            t2 = parse_type(ts)
            v2 = parse_value(ts, t2)
            ts.expect(")")
            return ("cicmp", pred, t1, v1, v2)
        raise IRError(f"unknown constant word {v!r} in {ts.context()}")
    if v == "[":
        elems = []
        if not ts.accept("]"):
            while True:
                et = parse_type(ts)
                elems.append((et, parse_value(ts, et)))
                if ts.accept("]"):
                    break
                ts.expect(",")
        return ("agg", elems)
    if v == "{":
        elems = []
        if not ts.accept("}"):
            while True:
                et = parse_type(ts)
                elems.append((et, parse_value(ts, et)))
                if ts.accept("}"):
                    break
                ts.expect(",")
        return ("agg", elems)
    if v == "<":
        if ts.peek()[1] == "{":
            ts.next()
            elems = []
            if not ts.accept("}"):
                while True:
                    et = parse_type(ts)
                    elems.append((et, parse_value(ts, et)))
                    if ts.accept("}"):
                        break
                    ts.expect(",")
            ts.expect(">")
            return ("agg", elems)
        elems = []
        while True:
            et = parse_type(ts)
            elems.append((et, parse_value(ts, et)))
            if ts.accept(">"):
                break
            ts.expect(",")
        return ("agg", elems)
    raise IRError(f"cannot parse value at {v!r} in {ts.context()}")


_VALUE_START_WORDS = {"true", "false", "null", "undef", "poison", "zeroinitializer", "none", "splat", "getelementptr", "icmp"} | _CAST_OPS | _BIN_OPS


def skip_attrs(ts: TS):
    """Skip parameter / return attributes until something that starts a value (or , or ))."""
    while True:
        k, v = ts.peek()
        if k is None or v in (",", ")"):
            return
        if k in ("id", "qid", "num", "hex", "cstr"):
            return
        if v in ("[", "{", "<"):
            return
        if k == "word" and v in _VALUE_START_WORDS:
            return
        ts.next()
        if v == "align" and ts.peek()[0] == "num":
            ts.next()
            continue
        if ts.peek()[1] == "(":
            depth = 0
            while True:
                tok = ts.next()[1]
                depth += tok == "("
                depth -= tok == ")"
                if depth == 0:
                    break


# ---------------------------------------------------------------- module


class Function:
    __slots__ = ("name", "ret", "params", "blocks", "order", "vararg", "defined", "compiled")

    def __init__(self, name, ret, params, vararg):
        self.name = name
        self.ret = ret
        self.params = params  # [(type, name)]
        self.blocks = {}
        self.order = []
        self.vararg = vararg
        self.defined = False
        self.compiled = None


class Module:
    def __init__(self):
        self.types = {}
        self.globals = {}  # name -> dict(type, init, const, tls, align, external)
        self.functions = {}
        self.aliases = {}


_CALL_PREFIX = {"tail", "musttail", "notail"}
_CC = {"fastcc", "ccc", "coldcc", "preserve_mostcc", "preserve_allcc", "cc"}
_ORDERINGS = {"unordered", "monotonic", "acquire", "release", "acq_rel", "seq_cst"}


def _strip_meta(toks):
    """Drop trailing ', !dbg !12' style metadata attachments and attribute groups."""
    out = []
    i = 0
    while i < len(toks):
        k, v = toks[i]
        if k == "meta":
            # remove preceding comma if present, skip the metadata reference that follows
            if out and out[-1][1] == ",":
                out.pop()
            i += 1
            if i < len(toks) and toks[i][0] == "meta":
                i += 1
            elif i < len(toks) and toks[i][1] == "{":
                # inline metadata !{...}
                depth = 0
                while i < len(toks):
                    depth += toks[i][1] == "{"
                    depth -= toks[i][1] == "}"
                    i += 1
                    if depth == 0:
                        break
            continue
        if k == "attr":
            i += 1
            continue
        out.append((k, v))
        i += 1
    return out


def parse_instruction(line):
    toks = _strip_meta(tokenize(line))
    ts = TS(toks)
    res = None
    if len(toks) >= 2 and toks[0][0] in ("id", "qid") and toks[1][1] == "=":
        res = unq(toks[0][1])[1:]
        ts.i = 2
    k, op = ts.next()
    while op in _CALL_PREFIX:
        k, op = ts.next()
    if op == "br":
        if ts.peek()[1] == "label":
            ts.next()
            return (res, "br", unq(ts.next()[1])[1:])
        t = parse_type(ts)
        c = parse_value(ts, t)
        ts.expect(",")
        ts.expect("label")
        a = unq(ts.next()[1])[1:]
        ts.expect(",")
        ts.expect("label")
        b = unq(ts.next()[1])[1:]
        return (res, "condbr", c, a, b)
    if op == "switch":
        t = parse_type(ts)
        v = parse_value(ts, t)
        ts.expect(",")
        ts.expect("label")
        default = unq(ts.next()[1])[1:]
        ts.expect("[")
        cases = {}
        while not ts.accept("]"):
            ct = parse_type(ts)
            cv = parse_value(ts, ct)
            ts.expect(",")
            ts.expect("label")
            cases[cv[1] & ((1 << t[1]) - 1)] = unq(ts.next()[1])[1:]
        return (res, "switch", t, v, default, cases)
    if op == "ret":
        t = parse_type(ts)
        if t == VOID:
            return (res, "ret", None, None)
        return (res, "ret", t, parse_value(ts, t))
    if op == "unreachable":
        return (res, "unreachable")
    if op == "alloca":
        if ts.peek()[1] == "inalloca":
            ts.next()
        t = parse_type(ts)
        count = ("int", 1)
        while ts.accept(","):
            if ts.peek()[1] == "align":
                ts.next()
                ts.next()
            elif ts.peek()[1] == "addrspace":
                ts.next(); ts.expect("("); ts.next(); ts.expect(")")
            else:
                ct = parse_type(ts)
                count = parse_value(ts, ct)
        return (res, "alloca", t, count)
    if op == "load":
        while ts.peek()[1] in ("atomic", "volatile"):
            ts.next()
        t = parse_type(ts)
        ts.expect(",")
        pt = parse_type(ts)
        p = parse_value(ts, pt)
        return (res, "load", t, p)
    if op == "store":
        while ts.peek()[1] in ("atomic", "volatile"):
            ts.next()
        t = parse_type(ts)
        v = parse_value(ts, t)
        ts.expect(",")
        pt = parse_type(ts)
        p = parse_value(ts, pt)
        return (res, "store", t, v, p)
    if op == "getelementptr":
        while ts.peek()[1] in _FLAGS:
            ts.next()
        bt = parse_type(ts)
        ts.expect(",")
        pt = parse_type(ts)
        p = parse_value(ts, pt)
        idx = []
        while ts.accept(","):
            it = parse_type(ts)
            idx.append((it, parse_value(ts, it)))
        return (res, "gep", bt, p, idx)
    if op in _BIN_OPS:
        while ts.peek()[1] in _FLAGS:
            ts.next()
        t = parse_type(ts)
        a = parse_value(ts, t)
        ts.expect(",")
        b = parse_value(ts, t)
        return (res, "bin", op, t, a, b)
    if op == "icmp":
        while ts.peek()[1] in _FLAGS:
            ts.next()
        pred = ts.next()[1]
        t = parse_type(ts)
        a = parse_value(ts, t)
        ts.expect(",")
        b = parse_value(ts, t)
        return (res, "icmp", pred, t, a, b)
    if op in _CAST_OPS:
        while ts.peek()[1] in _FLAGS:
            ts.next()
        st = parse_type(ts)
        v = parse_value(ts, st)
        ts.expect("to")
        dt = parse_type(ts)
        return (res, "cast", op, st, v, dt)
    if op == "select":
        while ts.peek()[1] in _FLAGS:
            ts.next()
        ct = parse_type(ts)
        c = parse_value(ts, ct)
        ts.expect(",")
        t = parse_type(ts)
        a = parse_value(ts, t)
        ts.expect(",")
        t2 = parse_type(ts)
        b = parse_value(ts, t2)
        return (res, "select", ct, c, t, a, b)
    if op == "phi":
        while ts.peek()[1] in _FLAGS:
            ts.next()
        t = parse_type(ts)
        inc = []
        while True:
            ts.expect("[")
            v = parse_value(ts, t)
            ts.expect(",")
            lbl = unq(ts.next()[1])[1:]
            ts.expect("]")
            inc.append((lbl, v))
            if not ts.accept(","):
                break
        return (res, "phi", t, dict(inc))
    if op in ("call", "invoke"):
        while ts.peek()[1] in _CC or ts.peek()[1] in _FLAGS:
            v = ts.next()[1]
            if v == "cc":
                ts.next()
        skip_ret_attrs(ts)
        rt = parse_type(ts)
        if rt[0] == "func":
            rt = rt[1]
        k2, callee = ts.next()
        if k2 in ("id", "qid"):
            nm = unq(callee)
            callee = ("global", nm[1:]) if nm[0] == "@" else ("local", nm[1:])
        elif callee == "asm":
            raise IRError("inline asm call")
        else:
            raise IRError(f"unsupported callee {callee!r} in {line[:120]}")
        ts.expect("(")
        args = []
        if not ts.accept(")"):
            while True:
                at = parse_type(ts)
                skip_attrs(ts)
                if at[0] == "metadata":
                    # metadata operand: skip to , or )
                    while ts.peek()[1] not in (",", ")"):
                        ts.next()
                    args.append((at, ("none",)))
                else:
                    args.append((at, parse_value(ts, at)))
                if ts.accept(")"):
                    break
                ts.expect(",")
        if op == "call":
            return (res, "call", rt, callee, args)
        # invoke: ... to label %ok unwind label %lp
        while ts.peek()[1] != "to":
            ts.next()
        ts.next()
        ts.expect("label")
        ok = unq(ts.next()[1])[1:]
        return (res, "invoke", rt, callee, args, ok)
    if op == "extractvalue":
        t = parse_type(ts)
        v = parse_value(ts, t)
        idx = []
        while ts.accept(","):
            idx.append(int(ts.next()[1]))
        return (res, "extractvalue", t, v, idx)
    if op == "insertvalue":
        t = parse_type(ts)
        v = parse_value(ts, t)
        ts.expect(",")
        et = parse_type(ts)
        ev = parse_value(ts, et)
        idx = []
        while ts.accept(","):
            idx.append(int(ts.next()[1]))
        return (res, "insertvalue", t, v, et, ev, idx)
    if op == "atomicrmw":
        if ts.peek()[1] == "volatile":
            ts.next()
        rop = ts.next()[1]
        pt = parse_type(ts)
        p = parse_value(ts, pt)
        ts.expect(",")
        t = parse_type(ts)
        v = parse_value(ts, t)
        return (res, "atomicrmw", rop, p, t, v)
    if op == "cmpxchg":
        while ts.peek()[1] in ("weak", "volatile"):
            ts.next()
        pt = parse_type(ts)
        p = parse_value(ts, pt)
        ts.expect(",")
        t = parse_type(ts)
        c = parse_value(ts, t)
        ts.expect(",")
        t2 = parse_type(ts)
        n = parse_value(ts, t2)
        return (res, "cmpxchg", p, t, c, n)
    if op == "fence":
        return (res, "fence")
    if op == "landingpad":
        return (res, "landingpad")
    if op == "resume":
        return (res, "resume")
    if op == "freeze":
        t = parse_type(ts)
        return (res, "freeze", t, parse_value(ts, t))
    if op == "extractelement":
        t = parse_type(ts)
        v = parse_value(ts, t)
        ts.expect(",")
        it = parse_type(ts)
        i = parse_value(ts, it)
        return (res, "extractelement", t, v, i)
    if op == "insertelement":
        t = parse_type(ts)
        v = parse_value(ts, t)
        ts.expect(",")
        et = parse_type(ts)
        e = parse_value(ts, et)
        ts.expect(",")
        it = parse_type(ts)
        i = parse_value(ts, it)
        return (res, "insertelement", t, v, e, i)
    if op == "shufflevector":
        t = parse_type(ts)
        a = parse_value(ts, t)
        ts.expect(",")
        t2 = parse_type(ts)
        b = parse_value(ts, t2)
        ts.expect(",")
        mt = parse_type(ts)
        m = parse_value(ts, mt)
        return (res, "shufflevector", t, a, b, mt, m)
    raise IRError(f"unknown instruction {op!r}: {line[:160]}")


def skip_ret_attrs(ts: TS):
    """Return attributes before the return type of a call: noundef, range(...), nonnull, align N, zeroext ..."""
    RET_ATTRS = {"noundef", "nonnull", "noalias", "zeroext", "signext", "inreg", "align", "dereferenceable", "dereferenceable_or_null", "range", "nofpclass", "captures"}
    while ts.peek()[1] in RET_ATTRS:
        v = ts.next()[1]
        if v == "align" and ts.peek()[0] == "num":
            ts.next()
        elif ts.peek()[1] == "(":
            depth = 0
            while True:
                tok = ts.next()[1]
                depth += tok == "("
                depth -= tok == ")"
                if depth == 0:
                    break


_LINKAGE = {"private", "internal", "external", "weak", "weak_odr", "linkonce", "linkonce_odr", "common", "appending", "extern_weak", "available_externally",
            "dso_local", "dso_preemptable", "hidden", "protected", "default", "unnamed_addr", "local_unnamed_addr", "externally_initialized"}


def parse_global(line, mod: Module):
    toks = _strip_meta(tokenize(line))
    ts = TS(toks)
    name = unq(ts.next()[1])[1:]
    ts.expect("=")
    tls = False
    ext = False
    while True:
        v = ts.peek()[1]
        if v in _LINKAGE:
            if v in ("external", "extern_weak"):
                ext = True
            ts.next()
        elif v == "thread_local":
            tls = True
            ts.next()
            if ts.peek()[1] == "(":
                ts.next(); ts.next(); ts.expect(")")
        elif v == "addrspace":
            ts.next(); ts.expect("("); ts.next(); ts.expect(")")
        else:
            break
    kind = ts.next()[1]
    if kind == "alias":
        t = parse_type(ts)
        ts.expect(",")
        pt = parse_type(ts)
        target = parse_value(ts, pt)
        mod.aliases[name] = target
        return
    if kind not in ("global", "constant"):
        raise IRError(f"global kind {kind!r}: {line[:120]}")
    t = parse_type(ts)
    init = None
    if not ts.done() and ts.peek()[1] != ",":
        init = parse_value(ts, t)
    align = 1
    while ts.accept(","):
        w = ts.next()[1]
        if w == "align":
            align = int(ts.next()[1])
        elif w in ("section", "comdat", "partition", "code_model"):
            if not ts.done():
                ts.next()
        else:
            pass
    mod.globals[name] = {"type": t, "init": init, "const": kind == "constant", "tls": tls, "align": align, "external": ext and init is None}


def parse_header(line):
    """define/declare line -> (name, ret, params, vararg)."""
    toks = _strip_meta(tokenize(line.rstrip("{ ").rstrip()))
    ts = TS(toks)
    ts.next()  # define / declare
    while ts.peek()[1] in _LINKAGE or ts.peek()[1] in _CC or ts.peek()[1] in ("noundef", "nonnull", "noalias", "zeroext", "signext", "align", "range",
                                                                              "dereferenceable", "dereferenceable_or_null", "inreg", "nofpclass", "captures"):
        v = ts.next()[1]
        if v == "align" and ts.peek()[0] == "num":
            ts.next()
        elif v == "cc":
            ts.next()
        elif ts.peek()[1] == "(":
            depth = 0
            while True:
                tok = ts.next()[1]
                depth += tok == "("
                depth -= tok == ")"
                if depth == 0:
                    break
    # return type (do not let parse_type swallow the parameter list as a function type)
    save = ts.i
    rt = _parse_type_nofunc(ts)
    name = unq(ts.next()[1])[1:]
    ts.expect("(")
    params = []
    vararg = False
    if not ts.accept(")"):
        while True:
            if ts.peek()[1] == "...":
                ts.next()
                vararg = True
            else:
                pt = _parse_type_nofunc(ts)
                pname = None
                # attributes then optional %name
                while ts.peek()[1] not in (",", ")"):
                    k, v = ts.next()
                    if k in ("id", "qid") and v[0] == "%":
                        pname = unq(v)[1:]
                    elif ts.peek()[1] == "(":
                        depth = 0
                        while True:
                            tok = ts.next()[1]
                            depth += tok == "("
                            depth -= tok == ")"
                            if depth == 0:
                                break
                params.append((pt, pname))
            if ts.accept(")"):
                break
            ts.expect(",")
    return name, rt, params, vararg


def _parse_type_nofunc(ts: TS):
    """parse_type without the trailing function-type suffix."""
    k, v = ts.peek()
    # temporarily hide a following '(' : parse base by hand for simple cases
    if k == "word" and (_INT_RE.match(v) or v in ("ptr", "void", "float", "double")):
        ts.next()
        if v == "ptr":
            return PTR
        if v == "void":
            return VOID
        m = _INT_RE.match(v)
        return I(int(m.group(1))) if m else ("float", v)
    # aggregates never directly precede '(' in headers we see, parse fully but guard
    save_i = ts.i
    t = parse_type(ts)
    if t[0] == "func":
        # undo: re-parse only the base
        ts.i = save_i
        depth = 0
        # find end of base type: balanced brackets
        start = ts.i
        while True:
            tok = ts.t[ts.i][1]
            if tok in "[{<":
                depth += 1
            elif tok in "]}>":
                depth -= 1
            ts.i += 1
            if depth == 0:
                break
        sub = TS(ts.t[start : ts.i])
        return parse_type(sub)
    return t


def parse_module(text: str) -> Module:
    mod = Module()
    lines = text.split("\n")
    i = 0
    n = len(lines)
    cur = None
    blk = None
    while i < n:
        line = lines[i]
        i += 1
        s = line.strip()
        if not s or s.startswith(";"):
            continue
        if cur is None:
            if s.startswith("%") and " = type " in s:
                nm, _, rest = s.partition(" = type ")
                ts = TS(tokenize(rest))
                mod.types[unq(nm)] = parse_type(ts)
                continue
            if s.startswith("@"):
                parse_global(s, mod)
                continue
            if s.startswith("declare "):
                name, rt, params, va = parse_header(s)
                if name not in mod.functions:
                    mod.functions[name] = Function(name, rt, params, va)
                continue
            if s.startswith("define "):
                name, rt, params, va = parse_header(s)
                cur = Function(name, rt, params, va)
                cur.defined = True
                mod.functions[name] = cur
                blk = None
                continue
            if s.startswith(("source_filename", "target ", "attributes ", "!", "$", "module asm", "uselistorder")):
                continue
            raise IRError(f"unexpected top-level line: {s[:120]}")
        # inside a function
        if s == "}":
            cur = None
            continue
        m = re.match(r'^("(?:[^"\\]|\\.)*"|[-a-zA-Z$._0-9]+):', s)
        if m and not line.startswith("  "):
            lbl = m.group(1)
            if lbl.startswith('"'):
                lbl = unq("%" + lbl)[1:]
            blk = []
            cur.blocks[lbl] = blk
            cur.order.append(lbl)
            continue
        if blk is None:
            # implicit entry block: numbered after the unnamed parameters
            lbl = str(sum(1 for (_t, pn) in cur.params if pn is None or pn.isdigit()))
            blk = []
            cur.blocks[lbl] = blk
            cur.order.append(lbl)
        # multi-line constructs: switch [...], invoke ... to label, landingpad clauses
        if " switch " in " " + s and s.rstrip().endswith("["):
            while not lines[i].strip().startswith("]"):
                s += " " + lines[i].strip()
                i += 1
            s += " ]"
            i += 1
        elif (s.startswith("invoke ") or " = invoke " in s) and " to label " not in s:
            while " to label " not in s:
                s += " " + lines[i].strip()
                i += 1
        elif "landingpad" in s.split("=")[-1].split()[:1] or s.startswith("landingpad") or " = landingpad " in s:
            while i < n and lines[i].strip().startswith(("cleanup", "catch", "filter")):
                i += 1
        blk.append(parse_instruction(s))
    return mod


def load_module(path: str, cache: str | None = None) -> Module:
    import os

    if cache and os.path.exists(cache) and os.path.getmtime(cache) >= os.path.getmtime(path):
        with open(cache, "rb") as f:
            return pickle.load(f)
    with open(path) as f:
        mod = parse_module(f.read())
    if cache:
        tmp = f"{cache}.{os.getpid()}.tmp"  # written aside and renamed: a concurrent reader never sees a partial pickle
        with open(tmp, "wb") as f:
            pickle.dump(mod, f, protocol=pickle.HIGHEST_PROTOCOL)
        os.replace(tmp, cache)
    return mod
