"""Proxy-aware byte containers used instead of bytes/bytearray in instrumented modules."""
from __future__ import annotations

import builtins
import z3

from . import core
from .core import SymInt, SymBool

_bbytearray = builtins.bytearray


class SymBytes:
    """A mutable byte sequence of concrete length whose elements may be SymInts."""

    __slots__ = ("items",)

    def __init__(self, items=()):
        self.items = list(items)

    def __len__(self):
        return len(self.items)

    def __iter__(self):
        return iter(self.items)

    def __getitem__(self, i):
        if isinstance(i, slice):
            return SymBytes(self.items[i])
        return self.items[i]

    def __setitem__(self, i, v):
        if isinstance(i, slice):
            self.items[i] = list(v)
        else:
            self.items[i] = v

    def __iadd__(self, o):
        self.items.extend(list(o))
        return self

    def __add__(self, o):
        return SymBytes(self.items + list(o))

    def __radd__(self, o):
        return SymBytes(list(o) + self.items)

    def append(self, v):
        self.items.append(v)

    def extend(self, o):
        self.items.extend(list(o))

    def _eq(self, o):
        try:
            other = list(o)
        except TypeError:
            return False
        if len(other) != len(self.items):
            return False
        conj = []
        for a, b in zip(self.items, other):
            r = a == b
            if isinstance(r, SymBool):
                conj.append(r.t)
            elif not r:
                return False
        if not conj:
            return True
        return SymBool(z3.And(*conj))

    def __eq__(self, o):
        return self._eq(o)

    def __ne__(self, o):
        r = self._eq(o)
        if isinstance(r, SymBool):
            return SymBool(z3.Not(r.t))
        return not r

    __hash__ = None

    def __repr__(self):
        return f"SymBytes({self.items!r})"

    def concrete(self):
        return all(isinstance(x, int) for x in self.items)

    def __bytes__(self):
        return bytes(int(x) for x in self.items)


class _BAMeta(type):
    def __instancecheck__(cls, obj):
        return isinstance(obj, (_bbytearray, SymBytes)) or type(obj).__name__ == "SymArrayBytes"

    def __subclasscheck__(cls, sub):
        return sub is SymBytes or issubclass(sub, _bbytearray)


class pbytearray(_bbytearray, metaclass=_BAMeta):
    """Replacement for ``bytearray`` inside instrumented modules."""

    def __new__(cls, x=None, *a):
        if not core.active():
            return _bbytearray() if x is None else _bbytearray(x, *a)
        if x is None:
            return SymBytes()
        if isinstance(x, SymBytes):
            return SymBytes(x.items)
        if type(x).__name__ == "SymArrayBytes":
            return x
        if isinstance(x, int) and not isinstance(x, bool):
            return SymBytes([0] * x)
        if isinstance(x, (bytes, _bbytearray)):
            return SymBytes(list(x))
        return SymBytes(list(x))


pbytearray.__name__ = "bytearray"
pbytearray.__qualname__ = "bytearray"


class _StructShim:
    """struct.calcsize/unpack_from/pack_into for the formats the decoder uses (B, H)."""

    _SIZES = {"B": 1, "H": 2, "<B": 1, "<H": 2, ">B": 1, ">H": 2}

    def __getattr__(self, name):
        import struct as _s

        return getattr(_s, name)

    def calcsize(self, fmt):
        import struct as _s

        return _s.calcsize(fmt)

    def unpack_from(self, fmt, buf, offset=0):
        if not isinstance(buf, SymBytes):
            import struct as _s

            return _s.unpack_from(fmt, buf, offset)
        if fmt not in self._SIZES:
            raise core.Inconclusive(f"struct shim: unsupported format {fmt!r}")
        n = self._SIZES[fmt]
        if len(buf) - offset < n:
            import struct as _s

            raise _s.error("unpack_from requires a buffer of at least %d bytes" % n)
        bs = buf.items[offset : offset + n]
        if fmt[0] == ">":
            bs = bs[::-1]
        v = bs[0]
        for i in range(1, n):
            v = v | (bs[i] << (8 * i))
        return (v,)

    def pack_into(self, fmt, buf, offset, *vals):
        if not isinstance(buf, SymBytes):
            import struct as _s

            return _s.pack_into(fmt, buf, offset, *vals)
        if fmt not in self._SIZES or len(vals) != 1:
            raise core.Inconclusive(f"struct shim: unsupported format {fmt!r}")
        n = self._SIZES[fmt]
        v = vals[0]
        # struct.pack_into raises struct.error when the value is out of range
        rng = (v >= 0) & (v < (1 << (8 * n))) if core.is_sym(v) else (0 <= v < (1 << (8 * n)))
        if not rng:
            import struct as _s

            raise _s.error("argument out of range")
        bs = [(v >> (8 * i)) & 0xFF for i in range(n)]
        if fmt[0] == ">":
            bs.reverse()
        for i, b in enumerate(bs):
            buf.items[offset + i] = b


struct_shim = _StructShim()


class SymGrid:
    """2-D list-of-lists stand-in backed by a z3 array (index = row * width + col).
    Used for HD61202.vram so symbolic page/column indices never fork."""

    def __init__(self, name, rows, cols, arr=None):
        self.rows, self.cols = rows, cols
        self.arr = arr if arr is not None else z3.Array(name, z3.BitVecSort(16), z3.BitVecSort(8))
        self.writes = []

    def _idx(self, r, c):
        for v, n in ((r, self.rows), (c, self.cols)):
            ok = (v >= 0) & (v < n) if core.is_sym(v) else (0 <= v < n)
            if not ok:
                raise IndexError("list index out of range")
        lin = r * self.cols + c
        return z3.BitVecVal(lin, 16) if isinstance(lin, int) else z3.Extract(15, 0, lin.t)

    def get(self, r, c):
        t = z3.Select(self.arr, self._idx(r, c))
        return SymInt.zext(t)

    def set(self, r, c, v):
        i = self._idx(r, c)
        self.writes.append(i)
        self.arr = z3.Store(self.arr, i, core.term_of(v, 8))

    def __getitem__(self, r):
        return _SymGridRow(self, r)

    def __len__(self):
        return self.rows

    def __iter__(self):
        for r in range(self.rows):
            yield _SymGridRow(self, r)


class _SymGridRow:
    def __init__(self, grid, r):
        self.grid, self.r = grid, r

    def __getitem__(self, c):
        return self.grid.get(self.r, c)

    def __setitem__(self, c, v):
        self.grid.set(self.r, c, v)

    def __len__(self):
        return self.grid.cols

    def __iter__(self):
        for c in range(self.grid.cols):
            yield self.grid.get(self.r, c)


class SymArrayBytes:
    """bytearray stand-in of concrete length backed by a z3 array (symbolic indices never fork)."""

    def __init__(self, name, length, arr=None):
        self.length = length
        self.arr = arr if arr is not None else z3.Array(name, z3.BitVecSort(32), z3.BitVecSort(8))
        self.name = name

    def __len__(self):
        return self.length

    def _idx(self, i):
        if isinstance(i, slice):
            raise core.Inconclusive("slice of a symbolic byte array")
        ok = (i >= 0) & (i < self.length) if core.is_sym(i) else (0 <= i < self.length)
        if not ok:
            if not core.is_sym(i) and -self.length <= i < 0:
                i = i + self.length
            else:
                raise IndexError("bytearray index out of range")
        return z3.BitVecVal(i, 32) if isinstance(i, int) else z3.Extract(31, 0, i.t)

    def __getitem__(self, i):
        t = z3.Select(self.arr, self._idx(i))
        ts = z3.simplify(t)
        return ts.as_long() if z3.is_bv_value(ts) else SymInt.zext(t)

    def __setitem__(self, i, v):
        if core.is_sym(v):
            ok = (v >= 0) & (v < 256)
            if not ok:
                raise ValueError("byte must be in range(0, 256)")
        elif not (0 <= v < 256):
            raise ValueError("byte must be in range(0, 256)")
        self.arr = z3.Store(self.arr, self._idx(i), core.term_of(v, 8))

    def __bool__(self):
        return self.length > 0
