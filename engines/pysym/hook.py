"""Import-time instrumentation for the modules executed symbolically.

(a) the names ``int``, ``bytearray`` and the module ``struct`` are rebound to
    proxy-aware equivalents inside the instrumented modules;
(b) conditional *expressions* / tiny if-statements whose arms are pure and
    int-like are rewritten to a value-level ``ite`` so flag computations do not
    fork 2^k ways.

Both are semantics-preserving for concrete values (validated by running the
repository's own tests through the instrumented modules, see checks/selftest).
The loader bypasses .pyc files so the encoding always comes from the current
source in /repo.
"""
from __future__ import annotations

import ast
import builtins
import importlib.abc
import importlib.machinery
import sys

from . import core
from .core import SymInt, SymBool, ite
from .containers import pbytearray, struct_shim, SymBytes

_bint = builtins.int

INSTRUMENTED_PREFIXES = (
    "sc62015",
    "pce500",
    "binja_test_mocks.eval_llil",
    "binja_test_mocks.coding",
    "binja_test_mocks.mock_llil",
    "binja_test_mocks.tokens",
)

instrumented_modules: list[str] = []
rewrites = {"ifexp": 0, "if_return": 0, "if_assign": 0}


class _IntMeta(type):
    def __instancecheck__(cls, obj):
        t = type(obj)
        return t is SymInt or t is SymBool or isinstance(obj, _bint)

    def __subclasscheck__(cls, sub):
        return sub is SymInt or issubclass(sub, _bint)


class pint(_bint, metaclass=_IntMeta):
    """Stands in for ``int`` in instrumented modules."""

    def __new__(cls, x=0, *args, **kw):
        t = type(x)
        if t is SymInt:
            return x
        if t is SymBool:
            return x.as_int()
        if t is str and core.active():
            mg = core.engine().magic
            if mg:
                hit = mg.get(x.strip().lower())
                if hit is not None:
                    return hit
        if t is str and core.active() and "⟦" in x:
            h = core.engine().handles.get(x.strip())
            if h is not None:
                return h
            raise core.Inconclusive(f"int() of a composite handle string {x!r}")
        return _bint(x, *args, **kw)

    @staticmethod
    def from_bytes(b, byteorder="big", *, signed=False):
        if isinstance(b, SymBytes) or (isinstance(b, (list, tuple)) and any(core.is_sym(x) for x in b)):
            items = list(b)
            if byteorder == "big":
                items = items[::-1]
            v = 0
            for i, x in enumerate(items):
                v = v | (x << (8 * i))
            if signed:
                raise core.Inconclusive("signed from_bytes on symbolic data")
            return v
        return _bint.from_bytes(b, byteorder, signed=signed)


pint.__name__ = "int"
pint.__qualname__ = "int"


def sym_not(c):
    t = type(c)
    if t is SymBool:
        import z3 as _z3

        return SymBool(_z3.Not(c.t))
    if t is SymInt:
        r = c == 0
        return r
    return not c


def lazy_ite(c, fa, fb):
    t = type(c)
    if t is not SymBool and t is not SymInt:
        return fa() if c else fb()
    return ite(c, fa(), fb())


def _pure(node) -> bool:
    if isinstance(node, ast.Constant):
        return isinstance(node.value, (int, bool)) and not isinstance(node.value, float)
    if isinstance(node, ast.Name):
        return True
    if isinstance(node, ast.Attribute):
        return _pure(node.value)
    if isinstance(node, ast.UnaryOp) and isinstance(node.op, (ast.USub, ast.Invert, ast.UAdd)):
        return _pure(node.operand)
    if isinstance(node, ast.BinOp) and isinstance(
        node.op, (ast.Add, ast.Sub, ast.Mult, ast.BitAnd, ast.BitOr, ast.BitXor, ast.LShift, ast.RShift)
    ):
        return _pure(node.left) and _pure(node.right)
    if isinstance(node, ast.Compare):
        return _pure(node.left) and all(_pure(c) for c in node.comparators) and len(node.ops) == 1 and isinstance(
            node.ops[0], (ast.Eq, ast.NotEq, ast.Lt, ast.LtE, ast.Gt, ast.GtE)
        )
    return False


def _lam(e):
    return ast.Lambda(
        args=ast.arguments(posonlyargs=[], args=[], vararg=None, kwonlyargs=[], kw_defaults=[], kwarg=None, defaults=[]),
        body=e,
    )


def _ite_call(test, a, b):
    return ast.Call(func=ast.Name(id="__pysym_lazy_ite__", ctx=ast.Load()), args=[test, _lam(a), _lam(b)], keywords=[])


class _Rewriter(ast.NodeTransformer):
    def __init__(self):
        self.depth = 0  # only rewrite inside function bodies (lambdas cannot see class scope)

    def visit_FunctionDef(self, node):
        self.depth += 1
        try:
            return self.generic_visit(node)
        finally:
            self.depth -= 1

    visit_AsyncFunctionDef = visit_FunctionDef
    visit_Lambda = visit_FunctionDef

    def visit_ClassDef(self, node):
        saved, self.depth = self.depth, 0
        try:
            return self.generic_visit(node)
        finally:
            self.depth = saved

    def visit_IfExp(self, node):
        self.generic_visit(node)
        if self.depth > 0 and _pure(node.body) and _pure(node.orelse):
            # ``A if not C else B``: keep the negation symbolic instead of forcing bool(C)
            if isinstance(node.test, ast.UnaryOp) and isinstance(node.test.op, ast.Not):
                node.test = ast.Call(func=ast.Name(id="__pysym_not__", ctx=ast.Load()), args=[node.test.operand], keywords=[])
            rewrites["ifexp"] += 1
            return ast.copy_location(_ite_call(node.test, node.body, node.orelse), node)
        return node

    def _rewrite_body(self, body):
        if self.depth <= 0:
            return body
        out = []
        i = 0
        while i < len(body):
            st = body[i]
            # if C: return A  /  return B
            if (
                isinstance(st, ast.If)
                and not st.orelse
                and len(st.body) == 1
                and isinstance(st.body[0], ast.Return)
                and st.body[0].value is not None
                and _pure(st.body[0].value)
                and i + 1 < len(body)
                and isinstance(body[i + 1], ast.Return)
                and body[i + 1].value is not None
                and _pure(body[i + 1].value)
            ):
                rewrites["if_return"] += 1
                new = ast.Return(value=_ite_call(st.test, st.body[0].value, body[i + 1].value))
                out.append(ast.copy_location(new, st))
                i += 2
                continue
            # if C: x = A  else: x = B
            if (
                isinstance(st, ast.If)
                and len(st.body) == 1
                and len(st.orelse) == 1
                and isinstance(st.body[0], ast.Assign)
                and isinstance(st.orelse[0], ast.Assign)
                and len(st.body[0].targets) == 1
                and len(st.orelse[0].targets) == 1
                and isinstance(st.body[0].targets[0], ast.Name)
                and isinstance(st.orelse[0].targets[0], ast.Name)
                and st.body[0].targets[0].id == st.orelse[0].targets[0].id
                and _pure(st.body[0].value)
                and _pure(st.orelse[0].value)
            ):
                rewrites["if_assign"] += 1
                new = ast.Assign(
                    targets=[ast.Name(id=st.body[0].targets[0].id, ctx=ast.Store())],
                    value=_ite_call(st.test, st.body[0].value, st.orelse[0].value),
                )
                out.append(ast.copy_location(new, st))
                i += 1
                continue
            out.append(st)
            i += 1
        return out

    def generic_visit(self, node):
        super().generic_visit(node)
        for field in ("body", "orelse", "finalbody"):
            b = getattr(node, field, None)
            if isinstance(b, list) and b and isinstance(b[0], ast.stmt):
                setattr(node, field, self._rewrite_body(b))
        return node

    def visit_Import(self, node):
        # ``import struct`` -> proxy-aware shim
        keep = []
        out = []
        for alias in node.names:
            if alias.name == "struct":
                out.append(
                    ast.ImportFrom(
                        module="engines.pysym.hook",
                        names=[ast.alias(name="struct_shim", asname=alias.asname or "struct")],
                        level=0,
                    )
                )
            else:
                keep.append(alias)
        if keep:
            node.names = keep
            out.insert(0, node)
        for o in out:
            ast.copy_location(o, node)
        return out if len(out) != 1 else out[0]


_PRELUDE = (
    "from engines.pysym.hook import pint as int, pbytearray as bytearray, lazy_ite as __pysym_lazy_ite__, sym_not as __pysym_not__\n"
)


def transform_source(source: bytes | str, path: str):
    tree = ast.parse(source, filename=path)
    tree = _Rewriter().visit(tree)
    prelude = ast.parse(_PRELUDE).body
    # insert after docstring and __future__ imports
    idx = 0
    body = tree.body
    if body and isinstance(body[0], ast.Expr) and isinstance(getattr(body[0], "value", None), ast.Constant) and isinstance(body[0].value.value, str):
        idx = 1
    while idx < len(body) and isinstance(body[idx], ast.ImportFrom) and body[idx].module == "__future__":
        idx += 1
    tree.body = body[:idx] + prelude + body[idx:]
    ast.fix_missing_locations(tree)
    return tree


class _Loader(importlib.machinery.SourceFileLoader):
    def get_code(self, fullname):
        path = self.get_filename(fullname)
        data = self.get_data(path)
        return self.source_to_code(data, path)

    def source_to_code(self, data, path, *, _optimize=-1):
        tree = transform_source(data, path)
        return compile(tree, path, "exec", dont_inherit=True, optimize=_optimize)


class _Finder(importlib.abc.MetaPathFinder):
    def find_spec(self, fullname, path, target=None):
        if not any(fullname == p or fullname.startswith(p + ".") for p in INSTRUMENTED_PREFIXES):
            return None
        spec = importlib.machinery.PathFinder.find_spec(fullname, path)
        if spec is None or not isinstance(spec.loader, importlib.machinery.SourceFileLoader):
            return spec
        if type(spec.loader) is importlib.machinery.SourceFileLoader:
            spec.loader = _Loader(spec.loader.name, spec.loader.path)
            instrumented_modules.append(fullname)
        return spec


_installed = False


def install(repo=None):
    """Install the import hook and put the repository on sys.path. Idempotent."""
    global _installed
    if _installed:
        return
    import os

    if repo is None:
        repo = os.environ.get("VERIF_REPO", "/repo")

    os.environ.setdefault("FORCE_BINJA_MOCK", "1")
    for m in list(sys.modules):
        if any(m == p or m.startswith(p + ".") for p in INSTRUMENTED_PREFIXES):
            raise RuntimeError(f"pysym.hook.install(): {m} was imported before the hook")
    sys.meta_path.insert(0, _Finder())
    if repo not in sys.path:
        sys.path.insert(0, repo)
    sys.dont_write_bytecode = True
    _installed = True
