"""pysym core: symbolic execution of real Python code through proxy objects.

SymInt / SymBool wrap z3 terms (64-bit bit-vectors / Bool).  Python's unbounded
``int`` is modelled by 64-bit two's complement; every SymInt also carries a
sound integer interval [lo, hi] and any operation whose interval could leave
[-2^62, 2^62) aborts the path as *inconclusive* (never as a pass).  Branching on
a SymBool asks the engine, which forks (DFS by re-execution with a decision
prefix).  ``__index__`` / ``__hash__`` concretise by forking over all feasible
values.

Everything that steers the engine derives from BaseException because the code
under analysis is full of ``except Exception: pass``.
"""
from __future__ import annotations

import builtins
import time
import z3

W = 64
LIM = 1 << 62
MASK = (1 << W) - 1
_bint = builtins.int


class PysymAbort(BaseException):
    """Base of all engine steering exceptions."""


class Inconclusive(PysymAbort):
    """The path cannot be decided (overflow bound, unsupported op, solver unknown, cap)."""


class PathLimit(PysymAbort):
    pass


_ENGINE = None


def engine() -> "Engine":
    if _ENGINE is None:
        raise RuntimeError("pysym: no active engine")
    return _ENGINE


def active() -> bool:
    return _ENGINE is not None


def _bv(c: int):
    return z3.BitVecVal(c & MASK, W)


def _chk(lo, hi, what):
    if lo < -LIM or hi >= LIM:
        raise Inconclusive(f"interval of {what} leaves 62-bit range: [{lo},{hi}]")


def _blen(x: int) -> int:
    return _bint.bit_length(x)


class SymBool:
    __slots__ = ("t",)

    def __init__(self, t):
        self.t = t

    def __bool__(self):
        return engine().decide(self.t)

    def as_int(self) -> "SymInt":
        return SymInt(z3.If(self.t, _bv(1), _bv(0)), 0, 1)

    # logical combinations that do not force a decision
    def __and__(self, o):
        if isinstance(o, SymBool):
            return SymBool(z3.And(self.t, o.t))
        if isinstance(o, bool):
            return self if o else False
        return self.as_int() & o

    __rand__ = __and__

    def __or__(self, o):
        if isinstance(o, SymBool):
            return SymBool(z3.Or(self.t, o.t))
        if isinstance(o, bool):
            return True if o else self
        return self.as_int() | o

    __ror__ = __or__

    def __xor__(self, o):
        if isinstance(o, SymBool):
            return SymBool(z3.Xor(self.t, o.t))
        if isinstance(o, bool):
            return SymBool(z3.Not(self.t)) if o else self
        return self.as_int() ^ o

    __rxor__ = __xor__

    def __invert__(self):
        return ~self.as_int()

    def __eq__(self, o):
        if isinstance(o, SymBool):
            return SymBool(self.t == o.t)
        if isinstance(o, bool):
            return self if o else SymBool(z3.Not(self.t))
        return self.as_int() == o

    def __ne__(self, o):
        r = self.__eq__(o)
        if isinstance(r, SymBool):
            return SymBool(z3.Not(r.t))
        return not r

    def __hash__(self):
        return hash(bool(self))

    def __index__(self):
        return 1 if bool(self) else 0

    def __int__(self):
        return 1 if bool(self) else 0

    def __repr__(self):
        return f"<SymBool {self.t.sexpr()[:60]}>"

    def __format__(self, spec):
        return self.as_int().__format__(spec)

    # arithmetic: behave like the integer 0/1
    def __add__(self, o):
        return self.as_int() + o

    def __radd__(self, o):
        return o + self.as_int()

    def __sub__(self, o):
        return self.as_int() - o

    def __rsub__(self, o):
        return o - self.as_int()

    def __mul__(self, o):
        return self.as_int() * o

    __rmul__ = __mul__

    def __lshift__(self, o):
        return self.as_int() << o

    def __rshift__(self, o):
        return self.as_int() >> o

    def __lt__(self, o):
        return self.as_int() < o

    def __le__(self, o):
        return self.as_int() <= o

    def __gt__(self, o):
        return self.as_int() > o

    def __ge__(self, o):
        return self.as_int() >= o

    def __neg__(self):
        return -self.as_int()


def _lift(o):
    """-> (term, lo, hi) or None"""
    if type(o) is SymInt:
        return o.t, o.lo, o.hi
    if isinstance(o, bool):
        o = _bint(o)
    if isinstance(o, _bint):
        o = _bint(o)
        if o < -LIM or o >= LIM:
            raise Inconclusive(f"constant {o} outside 62-bit range")
        return _bv(o), o, o
    if type(o) is SymBool:
        return z3.If(o.t, _bv(1), _bv(0)), 0, 1
    return None


def _mkbool(t, lo_true=None):
    return SymBool(t)


class SymInt:
    __slots__ = ("t", "lo", "hi")

    def __init__(self, t, lo, hi):
        self.t = t
        self.lo = lo
        self.hi = hi

    # ---- construction helpers
    @staticmethod
    def var(name: str, bits: int) -> "SymInt":
        """Fresh unsigned variable of ``bits`` bits (zero-extended to 64)."""
        v = z3.BitVec(name, bits)
        return SymInt(z3.ZeroExt(W - bits, v) if bits < W else v, 0, (1 << bits) - 1)

    @staticmethod
    def from_term(t, lo, hi) -> "SymInt":
        return SymInt(t, lo, hi)

    @staticmethod
    def zext(t) -> "SymInt":
        """Wrap a narrower bit-vector term as an unsigned value."""
        bits = t.size()
        return SymInt(z3.ZeroExt(W - bits, t) if bits < W else t, 0, (1 << bits) - 1)

    def low(self, bits: int):
        """Low ``bits`` bits as a z3 term."""
        return z3.simplify(z3.Extract(bits - 1, 0, self.t))

    # ---- arithmetic
    def __add__(self, o):
        r = _lift(o)
        if r is None:
            return NotImplemented
        t, lo, hi = r
        nlo, nhi = self.lo + lo, self.hi + hi
        _chk(nlo, nhi, "add")
        return SymInt(self.t + t, nlo, nhi)

    __radd__ = __add__

    def __sub__(self, o):
        r = _lift(o)
        if r is None:
            return NotImplemented
        t, lo, hi = r
        nlo, nhi = self.lo - hi, self.hi - lo
        _chk(nlo, nhi, "sub")
        return SymInt(self.t - t, nlo, nhi)

    def __rsub__(self, o):
        r = _lift(o)
        if r is None:
            return NotImplemented
        t, lo, hi = r
        nlo, nhi = lo - self.hi, hi - self.lo
        _chk(nlo, nhi, "rsub")
        return SymInt(t - self.t, nlo, nhi)

    def __mul__(self, o):
        r = _lift(o)
        if r is None:
            return NotImplemented
        t, lo, hi = r
        ps = [self.lo * lo, self.lo * hi, self.hi * lo, self.hi * hi]
        nlo, nhi = min(ps), max(ps)
        _chk(nlo, nhi, "mul")
        return SymInt(self.t * t, nlo, nhi)

    __rmul__ = __mul__

    def __neg__(self):
        _chk(-self.hi, -self.lo, "neg")
        return SymInt(-self.t, -self.hi, -self.lo)

    def __pos__(self):
        return self

    def __abs__(self):
        return ite(self < 0, -self, self)

    def __invert__(self):
        return SymInt(~self.t, -self.hi - 1, -self.lo - 1)

    # ---- bitwise
    def __and__(self, o):
        r = _lift(o)
        if r is None:
            return NotImplemented
        t, lo, hi = r
        alo, ahi = self.lo, self.hi
        if alo >= 0 and lo >= 0:
            nlo, nhi = 0, min(ahi, hi)
        elif alo >= 0:
            nlo, nhi = 0, ahi
        elif lo >= 0:
            nlo, nhi = 0, hi
        else:
            k = max(_blen(alo), _blen(lo))
            nlo, nhi = -(1 << k), max(ahi, hi, 0)
        return SymInt(self.t & t, nlo, nhi)

    __rand__ = __and__

    def __or__(self, o):
        r = _lift(o)
        if r is None:
            return NotImplemented
        t, lo, hi = r
        alo, ahi = self.lo, self.hi
        nlo = min(alo, lo)
        nhi = (1 << _blen(max(ahi, hi, 0))) - 1
        return SymInt(self.t | t, nlo, nhi)

    __ror__ = __or__

    def __xor__(self, o):
        r = _lift(o)
        if r is None:
            return NotImplemented
        t, lo, hi = r
        alo, ahi = self.lo, self.hi
        if alo >= 0 and lo >= 0:
            nlo, nhi = 0, (1 << _blen(max(ahi, hi))) - 1
        else:
            k = max(_blen(alo), _blen(lo), _blen(ahi), _blen(hi))
            nlo, nhi = -(1 << k), (1 << k) - 1
        return SymInt(self.t ^ t, nlo, nhi)

    __rxor__ = __xor__

    @staticmethod
    def _shl(at, alo, ahi, nt, nlo, nhi):
        if nlo < 0:
            raise Inconclusive("possibly negative shift count")
        if nhi > 62:
            raise Inconclusive("shift count may exceed 62")
        cands = [alo << nlo, alo << nhi, ahi << nlo, ahi << nhi]
        rlo, rhi = min(cands), max(cands)
        _chk(rlo, rhi, "lshift")
        return SymInt(at << nt, rlo, rhi)

    @staticmethod
    def _shr(at, alo, ahi, nt, nlo, nhi):
        if nlo < 0:
            raise Inconclusive("possibly negative shift count")
        if nhi > 63:
            # python: huge shift gives 0 / -1; bvashr saturates the same way
            nhi = 63
        cands = [alo >> nlo, alo >> nhi, ahi >> nlo, ahi >> nhi]
        return SymInt(at >> nt, min(cands), max(cands))  # '>>' on BitVecRef is arithmetic

    def __lshift__(self, o):
        r = _lift(o)
        if r is None:
            return NotImplemented
        return SymInt._shl(self.t, self.lo, self.hi, *r)

    def __rlshift__(self, o):
        r = _lift(o)
        if r is None:
            return NotImplemented
        return SymInt._shl(r[0], r[1], r[2], self.t, self.lo, self.hi)

    def __rshift__(self, o):
        r = _lift(o)
        if r is None:
            return NotImplemented
        return SymInt._shr(self.t, self.lo, self.hi, *r)

    def __rrshift__(self, o):
        r = _lift(o)
        if r is None:
            return NotImplemented
        return SymInt._shr(r[0], r[1], r[2], self.t, self.lo, self.hi)

    # ---- division (floor semantics)
    @staticmethod
    def _divmod(at, alo, ahi, bt, blo, bhi):
        if blo <= 0 <= bhi:
            # possible division by zero: decide it
            if engine().decide(bt == _bv(0)):
                raise ZeroDivisionError("integer division or modulo by zero")
            if blo == 0:
                blo = 1
            elif bhi == 0:
                bhi = -1
            else:
                raise Inconclusive("divisor of unknown sign")
        if alo >= 0 and blo > 0:
            q = z3.UDiv(at, bt)
            r = z3.URem(at, bt)
            qlo, qhi = alo // bhi, ahi // blo
            rlo, rhi = 0, min(ahi, bhi - 1)
        elif blo > 0:
            q0 = at / bt  # signed, truncating
            r0 = z3.SRem(at, bt)
            adj = z3.And(r0 != _bv(0), r0 < _bv(0))
            q = z3.If(adj, q0 - _bv(1), q0)
            r = z3.If(adj, r0 + bt, r0)
            cands = [alo // blo, alo // bhi, ahi // blo, ahi // bhi]
            qlo, qhi = min(cands), max(cands)
            rlo, rhi = 0, bhi - 1
        else:
            raise Inconclusive("division by a possibly negative divisor")
        return SymInt(q, qlo, qhi), SymInt(r, rlo, rhi)

    def __floordiv__(self, o):
        r = _lift(o)
        if r is None:
            return NotImplemented
        return SymInt._divmod(self.t, self.lo, self.hi, *r)[0]

    def __rfloordiv__(self, o):
        r = _lift(o)
        if r is None:
            return NotImplemented
        return SymInt._divmod(r[0], r[1], r[2], self.t, self.lo, self.hi)[0]

    def __mod__(self, o):
        r = _lift(o)
        if r is None:
            return NotImplemented
        return SymInt._divmod(self.t, self.lo, self.hi, *r)[1]

    def __rmod__(self, o):
        r = _lift(o)
        if r is None:
            return NotImplemented
        return SymInt._divmod(r[0], r[1], r[2], self.t, self.lo, self.hi)[1]

    def __divmod__(self, o):
        r = _lift(o)
        if r is None:
            return NotImplemented
        return SymInt._divmod(self.t, self.lo, self.hi, *r)

    def __truediv__(self, o):
        raise Inconclusive("true division of a symbolic int (float)")

    __rtruediv__ = __truediv__

    def __float__(self):
        raise Inconclusive("float() of a symbolic int")

    def __pow__(self, o, mod=None):
        if isinstance(o, _bint) and 0 <= o <= 4 and mod is None:
            r = 1
            for _ in range(o):
                r = self * r
            return r
        raise Inconclusive("pow of symbolic int")

    # ---- comparisons
    def _cmp(self, o, op):
        r = _lift(o)
        if r is None:
            return NotImplemented
        t, lo, hi = r
        alo, ahi = self.lo, self.hi
        if op == "lt":
            if ahi < lo:
                return True
            if alo >= hi:
                return False
            return SymBool(self.t < t)
        if op == "le":
            if ahi <= lo:
                return True
            if alo > hi:
                return False
            return SymBool(self.t <= t)
        if op == "gt":
            if alo > hi:
                return True
            if ahi <= lo:
                return False
            return SymBool(self.t > t)
        if op == "ge":
            if alo >= hi:
                return True
            if ahi < lo:
                return False
            return SymBool(self.t >= t)
        if op == "eq":
            if ahi < lo or alo > hi:
                return False
            if alo == ahi == lo == hi:
                return True
            return SymBool(self.t == t)
        if op == "ne":
            if ahi < lo or alo > hi:
                return True
            if alo == ahi == lo == hi:
                return False
            return SymBool(self.t != t)
        raise AssertionError(op)

    def __lt__(self, o):
        return self._cmp(o, "lt")

    def __le__(self, o):
        return self._cmp(o, "le")

    def __gt__(self, o):
        return self._cmp(o, "gt")

    def __ge__(self, o):
        return self._cmp(o, "ge")

    def __eq__(self, o):
        r = self._cmp(o, "eq")
        return False if r is NotImplemented else r

    def __ne__(self, o):
        r = self._cmp(o, "ne")
        return True if r is NotImplemented else r

    # ---- conversions
    def __bool__(self):
        r = self != 0
        return r if isinstance(r, bool) else bool(r)

    def __index__(self):
        return engine().concretize(self)

    def __int__(self):
        return engine().concretize(self)

    def __hash__(self):
        return hash(engine().concretize(self))

    def __format__(self, spec):
        return engine().handle(self, spec)

    def __repr__(self):
        return f"<SymInt [{self.lo},{self.hi}] {self.t.sexpr()[:80]}>"

    __str__ = __repr__

    def bit_length(self):
        return _bint.bit_length(engine().concretize(self))

    def to_bytes(self, length=1, byteorder="big", *, signed=False):
        from .containers import SymBytes

        bs = [(self >> (8 * i)) & 0xFF for i in range(length)]
        if byteorder == "big":
            bs.reverse()
        return SymBytes(bs)

    def __round__(self, n=None):
        return self

    def __trunc__(self):
        return self

    def conjugate(self):
        return self

    @property
    def real(self):
        return self

    @property
    def imag(self):
        return 0

    @property
    def numerator(self):
        return self

    @property
    def denominator(self):
        return 1


def is_sym(x) -> bool:
    return type(x) is SymInt or type(x) is SymBool


def term_of(x, bits=W):
    """z3 term (bits wide, truncating) for an int / SymInt / SymBool."""
    r = _lift(x)
    if r is None:
        raise TypeError(f"term_of({type(x)})")
    t = r[0]
    if bits == W:
        return t
    return z3.Extract(bits - 1, 0, t)


def ite(c, a, b):
    """Value-level conditional; merges int-like arms into a z3 If when c is symbolic."""
    if type(c) is SymInt:
        c = c != 0
    if type(c) is not SymBool:
        return a if c else b
    ra = _lift(a) if not isinstance(a, str) else None
    rb = _lift(b) if not isinstance(b, str) else None
    abool = isinstance(a, (bool, SymBool))
    bbool = isinstance(b, (bool, SymBool))
    if abool and bbool:
        ta = a.t if type(a) is SymBool else z3.BoolVal(a)
        tb = b.t if type(b) is SymBool else z3.BoolVal(b)
        return SymBool(z3.If(c.t, ta, tb))
    if ra is not None and rb is not None:
        return SymInt(z3.If(c.t, ra[0], rb[0]), min(ra[1], rb[1]), max(ra[2], rb[2]))
    return a if bool(c) else b


class PathResult:
    __slots__ = ("constraints", "value", "exc", "decisions", "status", "detail", "handles", "extra")

    def __init__(self):
        self.constraints = []
        self.value = None
        self.exc = None
        self.decisions = []
        self.status = "ok"  # ok | exception | inconclusive
        self.detail = ""
        self.handles = {}
        self.extra = {}

    def pc(self):
        return z3.And(*self.constraints) if self.constraints else z3.BoolVal(True)


class Stats:
    def __init__(self):
        self.solver_checks = 0
        self.solver_time = 0.0
        self.paths = 0
        self.forks = 0
        self.concretizations = 0
        self.inconclusive = 0

    def add(self, o: "Stats"):
        for k in self.__dict__:
            setattr(self, k, getattr(self, k) + getattr(o, k))

    def as_dict(self):
        return dict(self.__dict__)


_COMMUTATIVE = {z3.Z3_OP_AND, z3.Z3_OP_OR, z3.Z3_OP_EQ, z3.Z3_OP_DISTINCT, z3.Z3_OP_BADD, z3.Z3_OP_BMUL, z3.Z3_OP_BAND, z3.Z3_OP_BOR, z3.Z3_OP_BXOR,
                z3.Z3_OP_ADD, z3.Z3_OP_MUL, z3.Z3_OP_IFF, z3.Z3_OP_XOR}
_CANON_CAP = 600


def _canon_hash(t):
    """Structural hash of a term that ignores the argument order of commutative operators (z3's simplifier orients some of
    those by AST id, which differs between two executions of the same path).  Walks the raw AST through the C API; returns
    None (guard skipped) for terms with more than _CANON_CAP argument edges."""
    ctx = t.ctx.ref()
    zc = z3.z3core
    memo = {}
    expanded = set()
    root = t.as_ast()
    stack = [(root, False)]
    budget = _CANON_CAP
    while stack:
        x, done = stack.pop()
        xid = zc.Z3_get_ast_id(ctx, x)
        if xid in memo:
            continue
        kind = zc.Z3_get_ast_kind(ctx, x)
        if kind != z3.Z3_APP_AST:
            memo[xid] = hash((kind, zc.Z3_get_ast_hash(ctx, x)))  # numerals, lambdas/quantifiers: z3's own structural hash
            continue
        n = zc.Z3_get_app_num_args(ctx, x)
        if n == 0:
            memo[xid] = hash((0, zc.Z3_get_ast_hash(ctx, x)))  # constants: hash of the declaration
            continue
        if not done:
            if xid in expanded:
                continue
            expanded.add(xid)
            budget -= n
            if budget < 0:
                return None
        args = [zc.Z3_get_app_arg(ctx, x, i) for i in range(n)]
        if not done:
            stack.append((x, True))
            for c in args:
                if zc.Z3_get_ast_id(ctx, c) not in memo:
                    stack.append((c, False))
            continue
        d = zc.Z3_get_app_decl(ctx, x)
        dk = zc.Z3_get_decl_kind(ctx, d)
        hs = [memo[zc.Z3_get_ast_id(ctx, c)] for c in args]
        if dk in _COMMUTATIVE:
            hs.sort()
        np_ = zc.Z3_get_decl_num_parameters(ctx, d)
        params = tuple(zc.Z3_get_decl_int_parameter(ctx, d, i) for i in range(np_)) if dk in _INT_PARAM_OPS else np_
        memo[xid] = hash((dk, params, tuple(hs)))
    return memo[zc.Z3_get_ast_id(ctx, root)]


_INT_PARAM_OPS = {z3.Z3_OP_EXTRACT, z3.Z3_OP_ZERO_EXT, z3.Z3_OP_SIGN_EXT, z3.Z3_OP_ROTATE_LEFT, z3.Z3_OP_ROTATE_RIGHT, z3.Z3_OP_REPEAT}


_MAGIC_RUN = [0]


class Engine:
    """One path of one exploration."""

    CONCRETIZE_CAP = 4096

    def __init__(self, prefix, stats: Stats, timeout_ms=30000, assumptions=()):
        self.prefix = list(prefix)
        self.pos = 0
        self.decisions = []
        self.alternatives = []  # decision prefixes to explore later
        self.constraints = []
        self.solver = z3.Solver()
        self.solver.set("timeout", timeout_ms)
        self.stats = stats
        self.model = None
        self.handles = {}
        self.magic = {}  # magic numeral text (lower case) -> SymInt: numerals of a source text that stand for a term (C09/C10)
        _MAGIC_RUN[0] += 1
        self.magic_run = _MAGIC_RUN[0]  # numerals are unique per execution, so text-keyed caches in the code under test never hit across paths
        self.handle_seq = 0
        self.fresh_seq = 0
        self.decided = {}  # term id -> choice already implied by the path condition
        self.concretized = {}
        self._keep = []  # keep decided terms alive so ids stay unique
        for a in assumptions:
            self.assume(a)

    # -- solver plumbing
    def _check(self, *extra):
        t0 = time.time()
        r = self.solver.check(*extra)
        self.stats.solver_checks += 1
        self.stats.solver_time += time.time() - t0
        if r == z3.unknown:
            raise Inconclusive("solver returned unknown: " + self.solver.reason_unknown())
        return r == z3.sat

    def assume(self, t):
        if isinstance(t, SymBool):
            t = t.t
        elif isinstance(t, bool):
            t = z3.BoolVal(t)
        self.constraints.append(t)
        self.solver.add(t)
        if self.model is not None:
            v = self.model.eval(t, model_completion=True)
            if not z3.is_true(v):
                self.model = None

    def _model_says(self, t):
        if self.model is None:
            return None
        v = self.model.eval(t, model_completion=True)
        if z3.is_true(v):
            return True
        if z3.is_false(v):
            return False
        return None

    def decide(self, t) -> bool:
        t = z3.simplify(t)
        if z3.is_true(t):
            return True
        if z3.is_false(t):
            return False
        tid = t.get_id()
        hit = self.decided.get(tid)
        if hit is not None:
            return hit
        r = self._decide(t)
        self.decided[tid] = r
        self._keep.append(t)
        return r

    def _decide(self, t) -> bool:
        if self.pos < len(self.prefix):
            kind, choice, h = self.prefix[self.pos]
            if kind != "b" or (h is not None and h != _canon_hash(t)):
                raise RuntimeError("pysym: non-deterministic replay (decision %d is about a different term than when it was recorded)" % self.pos)
            self.pos += 1
            self.decisions.append(("b", choice, h))
            self.assume(t if choice else z3.Not(t))
            return choice
        # new decision
        hint = self._model_says(t)
        if hint is None:
            can_t = self._check(t)
            if can_t:
                self.model = None
            can_f = self._check(z3.Not(t))
        elif hint:
            can_t = True
            can_f = self._check(z3.Not(t))
        else:
            can_f = True
            can_t = self._check(t)
        if not can_t and not can_f:
            raise Inconclusive("path condition became unsatisfiable")
        if can_t and can_f:
            self.stats.forks += 1
            self.alternatives.append(self.decisions + [("b", False, _canon_hash(t))])
            choice = True
        else:
            choice = can_t
        self.pos += 1
        self.decisions.append(("b", choice, _canon_hash(t)))
        # keep the cached model only if it agrees
        if self.model is not None and self._model_says(t) is not choice:
            self.model = None
        self.constraints.append(t if choice else z3.Not(t))
        self.solver.add(self.constraints[-1])
        return choice

    def concretize(self, s: SymInt) -> int:
        t = z3.simplify(s.t)
        if z3.is_bv_value(t):
            v = t.as_signed_long()
            return v
        tid = t.get_id()
        if tid in self.concretized:
            return self.concretized[tid]
        r = self._concretize(t)
        self.concretized[tid] = r
        self._keep.append(t)
        return r

    def _concretize(self, t) -> int:
        if self.pos < len(self.prefix):
            kind, choice, h = self.prefix[self.pos]
            if kind != "v" or (h is not None and h != _canon_hash(t)):
                raise RuntimeError("pysym: non-deterministic replay (decision %d is about a different term than when it was recorded)" % self.pos)
            self.pos += 1
            self.decisions.append(("v", choice, h))
            self.assume(t == _bv(choice))
            return choice
        self.stats.concretizations += 1
        vals = []
        self.solver.push()
        try:
            while True:
                if not self._check():
                    break
                m = self.solver.model()
                v = m.eval(t, model_completion=True).as_signed_long()
                vals.append(v)
                if len(vals) > self.CONCRETIZE_CAP:
                    raise Inconclusive("concretisation cap exceeded")
                self.solver.add(t != _bv(v))
        finally:
            self.solver.pop()
        if not vals:
            raise Inconclusive("path condition became unsatisfiable")
        vals.sort()
        for v in vals[1:]:
            self.alternatives.append(self.decisions + [("v", v, _canon_hash(t))])
        if len(vals) > 1:
            self.stats.forks += len(vals) - 1
        choice = vals[0]
        self.pos += 1
        self.decisions.append(("v", choice, _canon_hash(t)))
        self.model = None
        self.constraints.append(t == _bv(choice))
        self.solver.add(self.constraints[-1])
        return choice

    def handle(self, s: SymInt, spec: str) -> str:
        t = z3.simplify(s.t)
        if z3.is_bv_value(t):
            return format(t.as_signed_long(), spec)
        self.handle_seq += 1
        key = f"⟦{self.handle_seq}:{spec}⟧"
        self.handles[key] = s
        return key

    def new_magic(self, value) -> str:
        """A hexadecimal literal that stands for ``value`` in source text handed to the code under test."""
        lit = "0x7E57%07X%03X" % (self.magic_run & 0xFFFFFFF, len(self.magic) + 1)
        self.magic[lit.lower()] = value
        return lit

    def fresh(self, prefix: str, bits: int) -> SymInt:
        self.fresh_seq += 1
        return SymInt.var(f"{prefix}!{self.fresh_seq}", bits)


def explore(fn, *, max_paths=20000, timeout_ms=30000, assumptions=(), stats: Stats | None = None, deadline_s=None):
    """Run ``fn()`` under the engine over all feasible paths.

    Returns (list[PathResult], Stats).  ``fn`` must be deterministic and create
    its symbolic inputs by name (same names on every path).
    """
    global _ENGINE
    if stats is None:
        stats = Stats()
    work = [[]]
    results = []
    t_start = time.time()
    while work:
        prefix = work.pop()
        if len(results) >= max_paths:
            e = PathLimit(f"more than {max_paths} paths")
            e.paths = results
            raise e
        if deadline_s is not None and time.time() - t_start > deadline_s:
            raise PathLimit(f"exploration exceeded its {deadline_s}s budget after {len(results)} paths")
        eng = Engine(prefix, stats, timeout_ms=timeout_ms, assumptions=assumptions)
        pr = PathResult()
        prev = _ENGINE
        _ENGINE = eng
        try:
            try:
                pr.value = fn()
            except Inconclusive as e:
                pr.status = "inconclusive"
                pr.detail = str(e)
                stats.inconclusive += 1
            except PysymAbort:
                raise
            except Exception as e:  # the code under test raised
                pr.status = "exception"
                pr.exc = e
            except RecursionError as e:  # pragma: no cover
                pr.status = "exception"
                pr.exc = e
        finally:
            _ENGINE = prev
        pr.constraints = list(eng.constraints)
        pr.decisions = list(eng.decisions)
        pr.handles = dict(eng.handles)
        stats.paths += 1
        results.append(pr)
        work.extend(eng.alternatives)
    return results, stats


# ---------------------------------------------------------------- deciding obligations

class Verdict:
    HOLDS = "unsat"
    CEX = "sat"
    UNKNOWN = "unknown"


def decide_obligation(path_constraints, negated_post, timeout_ms=30000):
    """unsat -> obligation discharged; sat -> model; unknown -> inconclusive."""
    s = z3.Solver()
    s.set("timeout", timeout_ms)
    for c in path_constraints:
        s.add(c)
    s.add(negated_post)
    t0 = time.time()
    r = s.check()
    dt = time.time() - t0
    if r == z3.unsat:
        return Verdict.HOLDS, None, dt
    if r == z3.sat:
        return Verdict.CEX, s.model(), dt
    return Verdict.UNKNOWN, None, dt
