"""Symbolic machine harness around the real ``sc62015.pysc62015.emulator.Emulator``.

The CPU memory is a z3 array behind the real ``Memory(read, write)`` callbacks
so symbolic addresses never fork; the register file is the real ``Registers``
object whose cells are pre-loaded with symbolic values that satisfy the
representation invariant ``Registers.set`` maintains (BA, I 16 bit; X, Y, U, S,
PC 20 bit; F 8 bit; TEMPn 24 bit).
"""
from __future__ import annotations

import z3

from . import core
from .core import SymInt, SymBool, term_of

ADDR_BITS = 32
A = z3.BitVecSort(ADDR_BITS)
B8 = z3.BitVecSort(8)

INTERNAL_MEMORY_START = 0x100000


class MemoryRangeError(Exception):
    """An access outside the 24-bit address range reached the memory callbacks."""


def addr_term(a):
    """32-bit address term of an int/SymInt that is known to be in [0, 2^24)."""
    if isinstance(a, int):
        return z3.BitVecVal(a, ADDR_BITS)
    return z3.Extract(ADDR_BITS - 1, 0, a.t)


class SymMemory:
    """Flat byte memory: initial contents = array ``name``; code bytes overlaid at ``code_base``."""

    def __init__(self, name="M", code_base=None, code=()):
        self.base = z3.Array(name, A, B8)
        self.cur = self.base
        self.log = []  # ("r"|"w", addr(int|SymInt), value(int|SymInt))
        self.code_base = code_base
        self.code = list(code)
        self.written = False
        self.fetch_reads = 0
        if code_base is not None:
            eng = core.engine()
            for i, b in enumerate(self.code):
                a = code_base + i
                eng.assume(z3.Select(self.base, addr_term(a)) == term_of(b, 8))

    def _code_index(self, addr):
        if self.code_base is None or self.written:
            return None
        if isinstance(addr, int) and isinstance(self.code_base, int):
            k = addr - self.code_base
        else:
            d = z3.simplify(term_of(addr) - term_of(self.code_base))
            if not z3.is_bv_value(d):
                return None
            k = d.as_signed_long()
        if 0 <= k < len(self.code):
            return k
        return None

    def _range_check(self, addr):
        ok = (addr >= 0) & (addr < (1 << 24)) if core.is_sym(addr) else (0 <= addr < (1 << 24))
        if not ok:
            raise MemoryRangeError(f"address out of range: {addr}")

    def read(self, addr):
        self._range_check(addr)
        k = self._code_index(addr)
        if k is not None:
            v = self.code[k]
        else:
            t = z3.Select(self.cur, addr_term(addr))
            ts = z3.simplify(t)
            v = ts.as_long() if z3.is_bv_value(ts) else SymInt.zext(t)
        self.log.append(("r", addr, v))
        return v

    def write(self, addr, value):
        self._range_check(addr)
        self.written = True
        self.cur = z3.Store(self.cur, addr_term(addr), term_of(value, 8))
        self.log.append(("w", addr, value))

    def byte_at(self, arr, addr):
        return z3.Select(arr, addr_term(addr))


REG_BITS = {
    "BA": 16,
    "I": 16,
    "X": 20,
    "Y": 20,
    "U": 20,
    "S": 20,
    "PC": 20,
    "F": 8,
}
ARCH_REGS = ("BA", "I", "X", "Y", "U", "S", "PC", "F")


def make_emulator(mem: SymMemory, prefix="r", temps="sym", regs=None):
    """Real Emulator over ``mem`` with a symbolic register file.

    temps: "sym" -> TEMP0..13 arbitrary 24-bit values, "zero" -> 0.
    Returns (emu, pre) where pre maps register name -> initial SymInt.
    """
    from sc62015.pysc62015.emulator import Emulator, RegisterName, NUM_TEMP_REGISTERS
    from binja_test_mocks.eval_llil import Memory

    emu = Emulator(Memory(mem.read, mem.write), reset_on_init=False)
    pre = {}
    for name, bits in REG_BITS.items():
        if regs is not None and name in regs:
            v = regs[name]
        else:
            v = SymInt.var(f"{prefix}_{name}", bits)
        emu.regs._values[RegisterName[name]] = v
        pre[name] = v
    for i in range(NUM_TEMP_REGISTERS):
        rn = RegisterName[f"TEMP{i}"]
        if temps == "sym":
            v = SymInt.var(f"{prefix}_TEMP{i}", 24)
        else:
            v = 0
        emu.regs._values[rn] = v
        pre[f"TEMP{i}"] = v
    return emu, pre


def post_regs(emu):
    from sc62015.pysc62015.emulator import RegisterName

    out = {}
    for name in ARCH_REGS:
        out[name] = emu.regs._values[RegisterName[name]]
    return out
