#!/bin/bash
# Build the overlay venv (z3-solver on top of /venv's packages). Offline.
set -e
cd "$(dirname "$0")"
if [ ! -x .venv/bin/python ] || ! .venv/bin/python -c 'import z3' 2>/dev/null; then
  rm -rf .venv
  /venv/bin/python -m venv .venv
  SP=$(.venv/bin/python -c 'import site;print(site.getsitepackages()[0])')
  printf '%s\n' "/venv/lib/python3.12/site-packages" > "$SP/verif_overlay.pth"
  PIP_NO_INDEX=1 .venv/bin/pip install -q --no-index --find-links /opt/veriftools/wheels z3-solver >/dev/null
fi
.venv/bin/python -c 'import z3, binja_test_mocks; print("venv ok, z3", z3.get_version_string())'
